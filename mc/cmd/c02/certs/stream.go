// Package certs is the input stream shared by C02 and C06: the closed,
// deterministic list of UNITS whose elements are candidate certificates (the
// checks keep those that x509.ParseCertificate accepts), and the process pool
// that feeds the units to worker processes (one pool per value of the
// process-global asn1.AllowPermissiveParsing).
//
// It contains generators and plumbing only — no oracle.
package certs

import (
	"encoding/gob"
	"fmt"
	"os"
	"sort"
	"strings"

	"verifmc/internal/xgen"
)

// Unit is one closed enumeration of candidate certificates. The list of units
// is a pure function of (tier, files under the repository), so the parent and
// every worker process build identical lists.
type Unit struct {
	Name string
	Kind string // "model" | "seed-tlv" | "seed-bytes" | "seed-pairs" | "ct"
	Base []byte // the unmutated certificate the unit derives from (default model certificate / the seed)
	Seed string // name of the seed ("" for model units)
	// Light marks the units of the thorough tier that C02 exercises with its reduced operation set
	// (the third-deviation level of the model, byte-level menus of the large seeds, pair mutations);
	// C06 evaluates every unit in full.
	Light bool
	Gen   xgen.Enum
}

// RepoDir is the zcrypto checkout the binary was built against.
func RepoDir() string {
	if v := os.Getenv("VERIF_REPO_DIR"); v != "" {
		return v
	}
	return "/repo"
}

func one(desc string, b []byte) xgen.Enum {
	return func(visit func(string, []byte) bool) { visit(desc, b) }
}

// modelShard: assignments of the G-field model with ≤ d deviations whose
// running index ≡ k (mod K). Only the shard's own assignments are encoded.
func modelShard(d, k, K int) xgen.Enum {
	return func(visit func(string, []byte) bool) {
		i := 0
		xgen.EnumAssignments(d, func(a xgen.Assignment) bool {
			i++
			if (i-1)%K != k {
				return true
			}
			return visit(a.String(), xgen.Encode(a))
		})
	}
}

// quickSeeds names the repository fixtures whose complete single-mutation
// menus are part of the QUICK tier (one per key kind / extension family; the
// thorough tier takes every certificate fixture). Matching is by substring of
// the seed name; a fixture that disappears from the repository is simply not
// enumerated (the list of units actually run is in the evidence file).
var quickSeeds = []string{
	"x509/x509_test.go:ed25519CertPem",
	"x509/x509_test.go:x25519CertPem",
	"x509/x509_test.go:pemCertPolicyUserNotices",
	"x509/testdata/self-signed.pem",
	"x509/testdata/self-signed-md5-rsa.pem",
	"x509/testdata/dsa_pk.cert",
	"x509/testdata/ecdsa_pk.cert",
	"x509/testdata/etsi_qc.pem",
	"x509/testdata/qwac.pem",
	"x509/testdata/ian.test.cert",
	"x509/testdata/san.test.cert",
	"x509/testdata/name.constraint.test.cert",
	"x509/testdata/unknown_sig_alg.cert",
	"x509/verify_test.go:zcryptoIntermediate",
	"ct/x509/x509_test.go:ecdsaSHA256p384CertPem",
	"ct/x509/x509_test.go:pemCertificate",
	"tls/handshake_test.go:clientEd25519CertificatePEM",
	"tls/testdata/example-cert.pem",
	"x509/revocation/ocsp/ocsp_test.go:responderCertHex",
	"data/test/certificates/le.go:PEMLEX3SignedByDSTRootCAX3",
}

// CertSeeds returns the certificate seeds: fixtures of the repository that
// are classified as certificates plus the harness-minted ones. Scanning the
// repository takes ~2 s, so the parent process does it once and hands the
// result to its workers through a file (environment variable CERTS_SEEDFILE).
func CertSeeds(repo string) []xgen.Seed {
	if p := os.Getenv("CERTS_SEEDFILE"); p != "" {
		if f, err := os.Open(p); err == nil {
			defer f.Close()
			var seeds []xgen.Seed
			if gob.NewDecoder(f).Decode(&seeds) == nil && len(seeds) > 0 {
				return seeds
			}
		}
	}
	seeds := xgen.OfKind(xgen.LoadSeeds(repo), "cert")
	return append(seeds, xgen.MintedSeeds()...)
}

// SaveSeeds writes the seed list for worker processes and points
// CERTS_SEEDFILE (inherited by children) at it.
func SaveSeeds(path string, seeds []xgen.Seed) error {
	f, err := os.Create(path)
	if err != nil {
		return err
	}
	defer f.Close()
	if err := gob.NewEncoder(f).Encode(seeds); err != nil {
		return err
	}
	os.Setenv("CERTS_SEEDFILE", path)
	return nil
}

// PairLimit is the largest seed (bytes) that also gets the TLVPairs menu in
// the thorough tier; QuickBytesLimit the largest seed whose byte-level menu
// (substitutions + truncations) is part of the quick tier.
const (
	PairLimit       = 420
	QuickBytesLimit = 520
	ByteWindow      = 160 // offsets per byte-level unit
)

// Config selects the stream.
type Config struct {
	ModelDepth int  // deviations of the field model (2 or 3)
	Shards     int  // shards of the model levels <= 2
	AllSeeds   bool // every certificate seed (else: the quick seed list)
	Bytes      int  // byte-level menu for: BytesSmall = quick-list seeds <= QuickBytesLimit, BytesQuickList = all quick-list seeds, BytesAll = every selected seed
	Pairs      bool // TLVPairs menu for seeds <= PairLimit
	Bundles    int  // concatenations of this many certificates of the bundle alphabet (0 = none, 2 = ordered pairs, 3 = ordered triples)
}

// Values of Config.Bytes.
const (
	BytesSmall = iota
	BytesQuickList
	BytesAll
)

// DefaultConfig is the stream of a tier as C02 uses it.
func DefaultConfig(quick bool) Config {
	if quick {
		return Config{ModelDepth: 2, Shards: 96, Bundles: 2}
	}
	return Config{ModelDepth: 3, Shards: 96, AllSeeds: true, Bytes: BytesAll, Pairs: true, Bundles: 3}
}

// level3 enumerates the assignments with exactly three non-default fields whose
// first (lowest-index) deviation is field f1 = alternative a1, sub-shard k of K
// (running index within (f1,a1) mod K), in lexicographic order of
// (f2,a2,f3,a3). The union over all (f1,a1,k) is exactly the third level of
// xgen.EnumAssignments(3); Level3Count cross-checks the total.
func level3(f1, a1, k, K int) xgen.Enum {
	return func(visit func(string, []byte) bool) {
		fields := xgen.Fields()
		a := xgen.Default()
		a[f1] = a1
		i := 0
		for f2 := f1 + 1; f2 < len(fields); f2++ {
			for a2 := 1; a2 < len(fields[f2].Alts); a2++ {
				a[f2] = a2
				for f3 := f2 + 1; f3 < len(fields); f3++ {
					for a3 := 1; a3 < len(fields[f3].Alts); a3++ {
						i++
						if (i-1)%K != k {
							continue
						}
						a[f3] = a3
						ok := visit(a.String(), xgen.Encode(a))
						a[f3] = 0
						if !ok {
							a[f2] = 0
							return
						}
					}
				}
				a[f2] = 0
			}
		}
	}
}

func level3Size(f1 int) int {
	fields := xgen.Fields()
	n := 0
	for f2 := f1 + 1; f2 < len(fields); f2++ {
		for f3 := f2 + 1; f3 < len(fields); f3++ {
			n += (len(fields[f2].Alts) - 1) * (len(fields[f3].Alts) - 1)
		}
	}
	return n
}

// Level3Count is the number of assignments enumerated by all level-3 units.
func Level3Count() int64 {
	fields := xgen.Fields()
	var n int64
	for f1 := range fields {
		n += int64(len(fields[f1].Alts)-1) * int64(level3Size(f1))
	}
	return n
}

func inQuickList(name string) bool {
	if strings.HasPrefix(name, "minted:") {
		// P-521 makes every signature check ~2 ms: the P-521 CA and the leaf it signed are thorough-tier seeds
		return !strings.HasSuffix(name, ":p521")
	}
	for _, want := range quickSeeds {
		if strings.Contains(name, want) {
			return true
		}
	}
	return false
}

// Units builds the unit list.
//
//	C02 quick:    model levels <= 2; for the quick seed list (10 minted certificates + quickSeeds) the TLV menu,
//	              and the byte-level menu of those of them that are <= QuickBytesLimit bytes.
//	C02 thorough: model levels <= 3 (level 3 marked Light); every certificate seed: TLV menu, byte-level menu
//	              (Light unless the seed is on the quick list), pair menu (Light) when <= PairLimit bytes.
//	C06 (cheap oracle) takes every seed with both menus already in its quick tier.
func Units(cfg Config, all []xgen.Seed) []Unit {
	return UnitsWith(cfg, all, nil)
}

// UnitsWith is Units with check-specific extra elements in the bundle alphabet.
func UnitsWith(cfg Config, all []xgen.Seed, extraBundle []BundleElem) []Unit {
	var units []Unit
	def := xgen.Encode(xgen.Default())
	units = append(units, Unit{Name: "model/name-ties", Kind: "ties", Base: def, Gen: nameTies()})
	if cfg.Bundles >= 2 {
		units = append(units, BundleUnits(BundleAlphabet(all, extraBundle...), cfg.Bundles)...)
	}
	for k := 0; k < cfg.Shards; k++ {
		units = append(units, Unit{Name: fmt.Sprintf("model/d<=2/shard%04d", k), Kind: "model", Base: def, Gen: modelShard(2, k, cfg.Shards)})
	}
	if cfg.ModelDepth >= 3 {
		fields := xgen.Fields()
		for f1 := range fields {
			size := level3Size(f1)
			if size == 0 {
				continue
			}
			K := (size + 3999) / 4000
			for a1 := 1; a1 < len(fields[f1].Alts); a1++ {
				for k := 0; k < K; k++ {
					units = append(units, Unit{Name: fmt.Sprintf("model/d=3/%s=%s/%d-of-%d", fields[f1].Name, fields[f1].Alts[a1], k, K), Kind: "model3", Base: def, Light: true, Gen: level3(f1, a1, k, K)})
				}
			}
		}
	}
	sel := append([]xgen.Seed(nil), all...)
	sort.SliceStable(sel, func(i, j int) bool { return sel[i].Name < sel[j].Name })
	for _, s := range sel {
		s := s
		q := inQuickList(s.Name)
		if !cfg.AllSeeds && !q {
			continue
		}
		// long menus are cut into several units (load balancing only: the union is the complete menu)
		K := 1 + len(s.Data)/300
		tlv := xgen.Concat(one("seed", s.Data), xgen.TLVSingles(s.Data))
		for k := 0; k < K; k++ {
			units = append(units, Unit{Name: fmt.Sprintf("seed/%s/tlv/%d-of-%d", s.Name, k, K), Kind: "seed-tlv", Base: s.Data, Seed: s.Name, Gen: tlv.Shard(k, K)})
		}
		if cfg.Bytes == BytesAll || (q && (cfg.Bytes == BytesQuickList || len(s.Data) <= QuickBytesLimit)) {
			for lo := 0; lo < len(s.Data); lo += ByteWindow {
				hi := lo + ByteWindow
				if hi > len(s.Data) {
					hi = len(s.Data)
				}
				units = append(units, Unit{Name: fmt.Sprintf("seed/%s/bytes/%d-%d", s.Name, lo, hi), Kind: "seed-bytes", Base: s.Data, Seed: s.Name, Light: !q,
					Gen: xgen.Concat(xgen.ByteSubsWindow(s.Data, lo, hi), xgen.TruncationsWindow(s.Data, lo, hi))})
			}
		}
		if cfg.Pairs && len(s.Data) <= PairLimit {
			pairs := xgen.TLVPairs(s.Data)
			for k := 0; k < 4; k++ {
				units = append(units, Unit{Name: fmt.Sprintf("seed/%s/pairs/%d-of-4", s.Name, k), Kind: "seed-pairs", Base: s.Data, Seed: s.Name, Light: true, Gen: pairs.Shard(k, 4)})
			}
		}
	}
	return units
}

// Describe is the human-readable rule of the stream (for ev.Rule).
func Describe(cfg Config, units []Unit) string {
	n := map[string]int{}
	seen := map[string]bool{}
	for _, u := range units {
		if u.Kind == "model" || u.Kind == "model3" || u.Kind == "bundle" {
			n[u.Kind]++
		} else if !seen[u.Kind+"|"+u.Seed] {
			seen[u.Kind+"|"+u.Seed] = true
			n[u.Kind]++ // seeds, not units
		}
	}
	s := fmt.Sprintf("input stream = %d units: (a) the certificate field model (%d fields, default = self-issued Ed25519 v3 certificate) with <= 2 non-default fields = %d encodings in %d shards",
		len(units), len(xgen.Fields()), xgen.CountAssignments(2), n["model"])
	if n["model3"] > 0 {
		s += fmt.Sprintf(" and with exactly 3 non-default fields = %d encodings in %d units", Level3Count(), n["model3"])
	}
	which := "10 harness-minted CA/leaf certificates + a fixed list of repository fixtures, one per key kind / extension family"
	if cfg.AllSeeds {
		which = "every certificate fixture found under the repository + 12 harness-minted CA/leaf certificates"
	}
	s += fmt.Sprintf("; (b) for each of %d certificate seeds (%s) the seed itself and every (TLV node x %d operators) single mutation with ancestor lengths fixed up; ", n["seed-tlv"], which, xgen.TLVMenuSize)
	switch cfg.Bytes {
	case BytesAll:
		s += "(c) for each of them every single-byte substitution from {00,01,7f,80,ff,b^01,b^80} at every offset and every truncation"
	case BytesQuickList:
		s += fmt.Sprintf("(c) for %d of them (10 harness-minted certificates + a fixed list of fixtures, one per key kind / extension family) every single-byte substitution from {00,01,7f,80,ff,b^01,b^80} at every offset and every truncation", n["seed-bytes"])
	default:
		s += fmt.Sprintf("(c) for the %d of them <= %d bytes every single-byte substitution from {00,01,7f,80,ff,b^01,b^80} at every offset and every truncation", n["seed-bytes"], QuickBytesLimit)
	}
	if n["seed-pairs"] > 0 {
		s += fmt.Sprintf("; (d) every pair of core-menu mutations on siblings / parent+child (TLVPairs) for the %d seeds <= %d bytes", n["seed-pairs"], PairLimit)
	}
	s += fmt.Sprintf("; (t) handed out first, the %d model certificates {default, cn-dns-*} x {san *-ties}: common names and subjectAltName entries that tie under ASCII case folding, trailing dots, "+
		"surrounding white space, wildcard/redaction prefixes, punycode vs. Unicode spelling, identical duplicates, and one host as dNSName / URI / 4- and 16-byte iPAddress (also part of (a))", countEnum(nameTies()))
	if n["bundle"] > 0 {
		s += fmt.Sprintf("; (u) BUNDLES: every ordered %d-tuple (repetitions included) over an alphabet of %d certificates, concatenated = %d bundles in %d units; the alphabet = %d model certificates chosen to differ in every "+
			"OPTIONAL element of Certificate/TBSCertificate (signature and key AlgorithmIdentifier parameters absent / NULL / OID / SEQUENCE: Ed25519, RSA, RSA-PSS, ECDSA, DSA; inner vs outer algorithm; version absent / explicit default / v2 / v3; "+
			"issuerUniqueID / subjectUniqueID absent, one, both; extensions absent / empty / present; CT poison / SCT list present or absent on the same base; issuer = / != subject) + the harness-minted CA/leaf certificates + the fixtures of the quick seed list + check-specific elements",
			cfg.Bundles, n["bundle"], pow(n["bundle"], cfg.Bundles), n["bundle"], len(bundleModel))
	}
	return s + ". Only the elements that x509.ParseCertificate accepts are subjects of the property; the rest is counted per reject class"
}

func pow(b, e int) int {
	r := 1
	for ; e > 0; e-- {
		r *= b
	}
	return r
}

func countEnum(e xgen.Enum) int {
	n := 0
	e(func(string, []byte) bool { n++; return true })
	return n
}
