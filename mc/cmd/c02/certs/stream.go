// Package certs is the input stream shared by C02 and C06: the closed,
// deterministic list of UNITS whose elements are candidate certificates (the
// checks keep those that x509.ParseCertificate accepts), and the process pool
// that feeds the units to worker processes (one pool per value of the
// process-global asn1.AllowPermissiveParsing).
//
// It contains generators and plumbing only — no oracle.
package certs

import (
	"encoding/gob"
	"fmt"
	"os"
	"sort"
	"strings"

	"verifmc/internal/xgen"
)

// Unit is one closed enumeration of candidate certificates. The list of units
// is a pure function of (tier, files under the repository), so the parent and
// every worker process build identical lists.
type Unit struct {
	Name string
	Kind string // "model" | "seed-tlv" | "seed-bytes" | "seed-pairs" | "ct"
	Base []byte // the unmutated certificate the unit derives from (default model certificate / the seed)
	Seed string // name of the seed ("" for model units)
	Gen  xgen.Enum
}

// RepoDir is the zcrypto checkout the binary was built against.
func RepoDir() string {
	if v := os.Getenv("VERIF_REPO_DIR"); v != "" {
		return v
	}
	return "/repo"
}

func one(desc string, b []byte) xgen.Enum {
	return func(visit func(string, []byte) bool) { visit(desc, b) }
}

// modelShard: assignments of the G-field model with ≤ d deviations whose
// running index ≡ k (mod K). Only the shard's own assignments are encoded.
func modelShard(d, k, K int) xgen.Enum {
	return func(visit func(string, []byte) bool) {
		i := 0
		xgen.EnumAssignments(d, func(a xgen.Assignment) bool {
			i++
			if (i-1)%K != k {
				return true
			}
			return visit(a.String(), xgen.Encode(a))
		})
	}
}

// quickSeeds names the repository fixtures whose complete single-mutation
// menus are part of the QUICK tier (one per key kind / extension family; the
// thorough tier takes every certificate fixture). Matching is by substring of
// the seed name; a fixture that disappears from the repository is simply not
// enumerated (the list of units actually run is in the evidence file).
var quickSeeds = []string{
	"x509/x509_test.go:ed25519CertPem",
	"x509/x509_test.go:x25519CertPem",
	"x509/x509_test.go:pemCertPolicyUserNotices",
	"x509/testdata/self-signed.pem",
	"x509/testdata/self-signed-md5-rsa.pem",
	"x509/testdata/dsa_pk.cert",
	"x509/testdata/ecdsa_pk.cert",
	"x509/testdata/etsi_qc.pem",
	"x509/testdata/qwac.pem",
	"x509/testdata/ian.test.cert",
	"x509/testdata/san.test.cert",
	"x509/testdata/name.constraint.test.cert",
	"x509/testdata/unknown_sig_alg.cert",
	"x509/verify_test.go:zcryptoIntermediate",
	"ct/x509/x509_test.go:ecdsaSHA256p384CertPem",
	"ct/x509/x509_test.go:pemCertificate",
	"tls/handshake_test.go:clientEd25519CertificatePEM",
	"tls/tls_test.go:ecdsaCertPEM",
	"x509/revocation/ocsp/ocsp_test.go:responderCertHex",
	"data/test/certificates/le.go:PEMLEX3SignedByDSTRootCAX3",
}

// CertSeeds returns the certificate seeds: fixtures of the repository that
// are classified as certificates plus the harness-minted ones. Scanning the
// repository takes ~2 s, so the parent process does it once and hands the
// result to its workers through a file (environment variable CERTS_SEEDFILE).
func CertSeeds(repo string) []xgen.Seed {
	if p := os.Getenv("CERTS_SEEDFILE"); p != "" {
		if f, err := os.Open(p); err == nil {
			defer f.Close()
			var seeds []xgen.Seed
			if gob.NewDecoder(f).Decode(&seeds) == nil && len(seeds) > 0 {
				return seeds
			}
		}
	}
	seeds := xgen.OfKind(xgen.LoadSeeds(repo), "cert")
	return append(seeds, xgen.MintedSeeds()...)
}

// SaveSeeds writes the seed list for worker processes and points
// CERTS_SEEDFILE (inherited by children) at it.
func SaveSeeds(path string, seeds []xgen.Seed) error {
	f, err := os.Create(path)
	if err != nil {
		return err
	}
	defer f.Close()
	if err := gob.NewEncoder(f).Encode(seeds); err != nil {
		return err
	}
	os.Setenv("CERTS_SEEDFILE", path)
	return nil
}

// PairLimit is the largest seed (bytes) that also gets the TLVPairs menu in
// the thorough tier.
const PairLimit = 420

// Config selects the stream.
type Config struct {
	Quick      bool
	ModelDepth int // deviations of the field model
	Shards     int // model shards
	SeedLimit  int // quick: number of entries of quickSeeds used (0 = all of the list)
}

// DefaultConfig is the stream of a tier.
func DefaultConfig(quick bool) Config {
	if quick {
		return Config{Quick: true, ModelDepth: 2, Shards: 96}
	}
	return Config{Quick: false, ModelDepth: 3, Shards: 2048}
}

// Units builds the unit list.
func Units(cfg Config, all []xgen.Seed) []Unit {
	var units []Unit
	def := xgen.Encode(xgen.Default())
	for k := 0; k < cfg.Shards; k++ {
		units = append(units, Unit{Name: fmt.Sprintf("model/d<=%d/shard%04d", cfg.ModelDepth, k), Kind: "model", Base: def, Gen: modelShard(cfg.ModelDepth, k, cfg.Shards)})
	}
	var sel []xgen.Seed
	if cfg.Quick {
		for _, s := range all {
			// every minted certificate except the P-521 CA (a P-521 subject key makes every
			// signature check ~2 ms: thorough tier only)
			if strings.HasPrefix(s.Name, "minted:") && s.Name != "minted:ca:p521" {
				sel = append(sel, s)
			}
		}
		names := quickSeeds
		if cfg.SeedLimit > 0 && cfg.SeedLimit < len(names) {
			names = names[:cfg.SeedLimit]
		}
		for _, want := range names {
			for _, s := range all {
				if strings.Contains(s.Name, want) {
					sel = append(sel, s)
					break
				}
			}
		}
	} else {
		sel = all
	}
	sort.SliceStable(sel, func(i, j int) bool { return sel[i].Name < sel[j].Name })
	for _, s := range sel {
		s := s
		units = append(units,
			Unit{Name: "seed/" + s.Name + "/tlv", Kind: "seed-tlv", Base: s.Data, Seed: s.Name, Gen: xgen.Concat(one("seed", s.Data), xgen.TLVSingles(s.Data))},
			Unit{Name: "seed/" + s.Name + "/bytes", Kind: "seed-bytes", Base: s.Data, Seed: s.Name, Gen: xgen.Concat(xgen.ByteSubs(s.Data), xgen.Truncations(s.Data))})
		if !cfg.Quick && len(s.Data) <= PairLimit {
			units = append(units, Unit{Name: "seed/" + s.Name + "/pairs", Kind: "seed-pairs", Base: s.Data, Seed: s.Name, Gen: xgen.TLVPairs(s.Data)})
		}
	}
	return units
}

// Describe is the human-readable rule of the stream (for ev.Rule).
func Describe(cfg Config, units []Unit) string {
	n := map[string]int{}
	for _, u := range units {
		n[u.Kind]++
	}
	seeds := n["seed-tlv"]
	s := fmt.Sprintf("input stream = %d units: (a) the certificate field model (%d fields) with <= %d non-default fields = %d encodings in %d shards; "+
		"(b) for each of %d certificate seeds (%s) the seed itself, every (TLV node x %d operators) single mutation with ancestor lengths fixed up, every single-byte substitution from {00,01,7f,80,ff,b^01,b^80} at every offset and every truncation",
		len(units), len(xgen.Fields()), cfg.ModelDepth, xgen.CountAssignments(cfg.ModelDepth), n["model"], seeds,
		map[bool]string{true: "11 of the 12 harness-minted CA/leaf certificates + a fixed list of repository fixtures, one per key kind / extension family", false: "every certificate fixture found under the repository + the 12 harness-minted ones"}[cfg.Quick],
		xgen.TLVMenuSize)
	if n["seed-pairs"] > 0 {
		s += fmt.Sprintf("; (c) every pair of core-menu mutations on siblings / parent+child (TLVPairs) for the %d seeds <= %d bytes", n["seed-pairs"], PairLimit)
	}
	return s + ". Only the elements that x509.ParseCertificate accepts are subjects of the property; the rest is counted per reject class"
}
