package main

import (
	"bytes"
	"crypto/ed25519"
	"encoding/json"
	"fmt"
	"strings"
	"time"

	"github.com/zmap/zcrypto/verifier"
	"github.com/zmap/zcrypto/x509"
	"github.com/zmap/zcrypto/x509/pkix"
	"verifmc/cmd/c02/certs"
	"verifmc/internal/ev"
	"verifmc/internal/fx"
	"verifmc/internal/xgen"
)

// Operation ids (written to the progress file; index into opTable).
const (
	opParse = iota + 1
	opJSON
	opJSONDecode
	opCheckSigFrom
	opParentCheckSigFrom
	opCheckSig
	opCheckSigFromKey
	opVerifyHostname
	opNameAcc
	opSubjectAndKey
	opPool
	opVerify
	opValidate
	opGraphAddCert
	opGraphAddRoot
	opGraphWalk
	opVerifierVerify
	opQCTor
)

var opTable = []string{"", "ParseCertificate", "json.Marshal", "json.Unmarshal(sub-decoders)", "c.CheckSignatureFrom(parent)", "parent.CheckSignatureFrom(c)",
	"c.CheckSignature", "CheckSignatureFromKey(parent key)", "c.VerifyHostname", "name accessors", "c.SubjectAndKey", "CertPool", "c.Verify",
	"c.ValidateWithStupidDetail", "Graph.AddCert", "Graph.AddRoot", "Graph.WalkChains", "Verifier.Verify", "QC/Tor accessors"}

var hostnames = []string{"", "a.example", "1.2.3.4", "[::1]", "*"}

type parentCert struct {
	name string
	c    *x509.Certificate
}

// handler is the C02 worker logic.
type handler struct {
	parents  []parentCert   // fixed pool
	graphPar []int          // indices of the parents used in the per-certificate graphs
	rootPool *x509.CertPool // the graph parents as a pool
	baseUnit int
	extra    []parentCert // per unit: base certificate, issuing minted CA
	sigAlgs  []x509.SignatureAlgorithm
	minted   map[string][]byte
}

// issuerCA builds, with the DER writer, a CA certificate for the key that signs
// the model's "selfissued=no" certificates (subject CN=xgen issuer).
func issuerCA() []byte {
	key := fx.Ed("xgen-issuer")
	name := xgen.Seq(xgen.Set(xgen.Seq(xgen.OID(2, 5, 4, 3), xgen.UTF8("xgen issuer"))))
	alg := xgen.Seq(xgen.OID(1, 3, 101, 112))
	spki := xgen.Seq(alg, xgen.BitString(key.Public().(ed25519.PublicKey)))
	exts := xgen.Explicit(3, xgen.Seq(
		xgen.Extension([]int{2, 5, 29, 19}, true, xgen.Seq(xgen.Bool(true))),
		xgen.Extension([]int{2, 5, 29, 15}, true, []byte{0x03, 0x02, 0x01, 0x06}),
	))
	tbs := xgen.Seq(xgen.Explicit(0, xgen.Int(2)), xgen.Int(0x4242), alg, name,
		xgen.Seq(xgen.UTCTime(fx.T0.Add(-48*time.Hour)), xgen.UTCTime(fx.T0.Add(48*time.Hour))), name, spki, exts)
	return xgen.AssembleCert(tbs, alg, ed25519.Sign(key, tbs))
}

// parentDERs is the closed list of candidate parents (before parsing): one
// model CA per alternative of the model's key field (the parser decides which
// survive) and the CA behind "selfissued=no". Per unit, the unmutated base
// certificate of the unit and — for the minted leaf seeds — the minted CA that
// issued it are added (unitExtra).
func parentDERs() (names []string, ders [][]byte) {
	for _, alt := range xgen.Fields()[0].Alts {
		a := xgen.Default().With("basicconstraints", "valid")
		if alt != xgen.Fields()[0].Alts[0] {
			a = a.With("key", alt)
		}
		names = append(names, "model-ca:key="+alt)
		ders = append(ders, xgen.Encode(a))
	}
	names = append(names, "xgen-issuer-ca")
	ders = append(ders, issuerCA())
	return
}

func (h *handler) Init(w *certs.Worker) error {
	names, ders := parentDERs()
	h.rootPool = x509.NewCertPool()
	for i, der := range ders {
		var c *x509.Certificate
		var err error
		if p, _, _ := ev.Try(func() { c, err = x509.ParseCertificate(der) }); p || err != nil {
			continue // not an accepted certificate: cannot be a parent
		}
		h.parents = append(h.parents, parentCert{names[i], c})
	}
	h.minted = map[string][]byte{}
	for _, s := range xgen.MintedSeeds() {
		h.minted[s.Name] = s.Data
	}
	if len(h.parents) < 8 {
		return fmt.Errorf("only %d candidate parents were accepted by the parser", len(h.parents))
	}
	for i, p := range h.parents {
		switch p.name {
		case "model-ca:key=ed25519", "model-ca:key=rsa", "xgen-issuer-ca":
			h.graphPar = append(h.graphPar, i)
			h.rootPool.AddCert(p.c)
		}
	}
	for a := x509.UnknownSignatureAlgorithm; a <= x509.Ed25519Sig+1; a++ {
		h.sigAlgs = append(h.sigAlgs, a)
	}
	h.baseUnit = -2
	return nil
}

// errString calls Error() on a returned error (error types of the package
// format the certificate: that is part of the operation).
func errClass(err error) string {
	if err == nil {
		return "ok"
	}
	_ = err.Error()
	return "err"
}

type itemRun struct {
	x     *certs.ItemCtx
	ops   int64
	evals int64
}

// try runs f as operation op on the current item; a panic is a violation.
func (r *itemRun) try(op int, sub string, f func()) bool {
	r.ops++
	r.evals++
	p, msg, site := ev.Try(f)
	if p {
		name := opTable[op]
		r.x.Violation(fmt.Sprintf("panic@%s: %s [%s]", site, certs.MsgClass(msg), name), name, sub+": "+msg)
		r.x.A.Outcome("op:"+name+":PANIC", 1)
		return false
	}
	return true
}

// unitExtra returns the per-unit candidate parents: the unmutated base
// certificate of the unit and, for a minted leaf seed, the minted CA that
// issued it (when the parser accepts them).
func (h *handler) unitExtra(x *certs.ItemCtx) []parentCert {
	if h.baseUnit == x.UnitIdx && x.UnitIdx >= 0 {
		return h.extra
	}
	h.baseUnit, h.extra = x.UnitIdx, nil
	add := func(name string, der []byte) {
		if len(der) == 0 {
			return
		}
		var c *x509.Certificate
		var err error
		if p, _, _ := ev.Try(func() { c, err = x509.ParseCertificate(append([]byte(nil), der...)) }); !p && err == nil && c != nil {
			h.extra = append(h.extra, parentCert{name, c})
		}
	}
	add("unit-base", x.U.Base)
	if strings.HasPrefix(x.U.Seed, "minted:leaf:") {
		add("unit-issuer", h.minted["minted:ca:"+strings.TrimPrefix(x.U.Seed, "minted:leaf:")])
	}
	return h.extra
}

func shortClass(s string) string {
	s = ev.MsgClass(s)
	if len(s) > 70 {
		s = s[:70]
	}
	return s
}

func (h *handler) Item(x *certs.ItemCtx) {
	a := x.A
	if x.U.IsBundle() {
		h.bundleItem(x)
		return
	}
	var c *x509.Certificate
	var err error
	if p, msg, site := ev.Try(func() { c, err = x509.ParseCertificate(x.DER) }); p {
		// parser panics are C01's subject; here the input simply is not an accepted certificate
		a.Outcome("parse:PANIC(C01's subject)@"+site+": "+shortClass(msg), 1)
		return
	}
	if err != nil {
		a.Outcome("reject:"+shortClass(err.Error()), 1)
		return
	}
	if c == nil {
		a.Outcome("reject:nil-nil", 1)
		return
	}
	a.Accepted++
	a.Outcome("accept", 1)
	r := &itemRun{x: x}
	h.exercise(r, c)
	a.Count("ops", r.ops)
	a.Count("evals", r.evals)
}

func (h *handler) exercise(r *itemRun, c *x509.Certificate) {
	x := r.x
	a := x.A
	light := x.U.Light
	extra := h.unitExtra(x)
	parents := h.parents
	if len(extra) > 0 {
		parents = append(append([]parentCert(nil), parents...), extra...)
	}

	// --- JSON twice (before anything else touched the certificate); tieReps times when names tie (ties.go)
	reps := 2
	if tieCarrying(c) {
		reps = tieReps
		a.Outcome("names:tie-carrying (serialised and collected 16 times per stage)", 1)
	}
	jsonTwice := func(stage string) []byte {
		var j1 []byte
		var e1 error
		if !r.try(opJSON, stage+" first", func() { j1, e1 = json.Marshal(c) }) {
			return nil
		}
		for k := 2; k <= reps; k++ {
			var j2 []byte
			var e2 error
			if !r.try(opJSON, fmt.Sprintf("%s serialisation %d", stage, k), func() { j2, e2 = json.Marshal(c) }) {
				return nil
			}
			r.evals++
			switch {
			case (e1 == nil) != (e2 == nil) || (e1 != nil && e1.Error() != e2.Error()):
				x.Violation("json.Marshal(cert) twice: different results (error vs. output)", opTable[opJSON], fmt.Sprintf("%s: first err=%v, serialisation %d err=%v", stage, e1, k, e2))
				return nil
			case e1 != nil:
				if k == reps {
					a.Outcome("json:error:"+shortClass(e1.Error()), 1)
				}
			case !bytes.Equal(j1, j2):
				x.Violation("json.Marshal(cert) twice: outputs differ"+diffClass(j1, j2), opTable[opJSON], fmt.Sprintf("%s, serialisation 1 vs %d: %s", stage, k, firstDiff(j1, j2)))
				a.Outcome("json:NONDETERMINISTIC", 1)
				return j1
			}
		}
		if e1 != nil {
			return nil
		}
		if !json.Valid(j1) {
			x.Violation("json.Marshal(cert): output is not valid JSON", opTable[opJSON], stage)
		} else {
			a.Outcome("json:ok-identical", 1)
		}
		return j1
	}
	j := jsonTwice("fresh")

	// --- decode the JSON back where decoders exist (no panic; the values are C33's subject)
	if j != nil && !light {
		var top map[string]json.RawMessage
		if json.Unmarshal(j, &top) == nil {
			dec := func(key string, into any) {
				raw, ok := top[key]
				if !ok {
					return
				}
				var derr error
				if r.try(opJSONDecode, key, func() { derr = json.Unmarshal(raw, into) }) {
					a.Outcome("json-decode:"+key+":"+errClass(derr), 1)
				}
			}
			dec("issuer", new(pkix.Name))
			dec("subject", new(pkix.Name))
			dec("extensions", new(x509.CertificateExtensions))
			dec("unknown_extensions", new(x509.UnknownCertificateExtensions))
			dec("subject_key_info", new(x509.JSONSubjectKeyInfo))
			dec("signature_algorithm", new(x509.JSONSignatureAlgorithm))
			dec("signature_algorithm", new(x509.SignatureAlgorithm))
			dec("validity", new(x509.JSONValidity))
			dec("signature", new(x509.JSONSignature))
			dec("fingerprint_sha256", new(x509.CertificateFingerprint))
			dec("validation_level", new(x509.CertValidationLevel))
			var derr error
			if r.try(opJSONDecode, "JSONCertificate", func() { derr = json.Unmarshal(j, new(x509.JSONCertificate)) }) {
				a.Outcome("json-decode:JSONCertificate:"+errClass(derr), 1)
			}
			if r.try(opJSONDecode, "Certificate", func() { derr = json.Unmarshal(j, new(x509.Certificate)) }) {
				a.Outcome("json-decode:Certificate:"+errClass(derr), 1)
			}
			raw, _ := json.Marshal(x509.JSONCertificateWithRaw{Raw: c.Raw})
			var jr x509.JSONCertificateWithRaw
			r.try(opJSONDecode, "JSONCertificateWithRaw.ParseRaw", func() {
				if json.Unmarshal(raw, &jr) == nil {
					_, derr = jr.ParseRaw()
				}
			})
		}
	}

	// --- signature checks against every candidate parent, both directions
	var nOK, nErr int64
	tally := func(e error) {
		if e == nil {
			nOK++
		} else {
			_ = e.Error()
			nErr++
		}
	}
	for _, p := range parents {
		p := p
		r.try(opCheckSigFrom, p.name, func() { tally(c.CheckSignatureFrom(p.c)) })
		r.try(opCheckSigFromKey, p.name, func() {
			tally(x509.CheckSignatureFromKey(p.c.PublicKey, c.SignatureAlgorithm, c.RawTBSCertificate, c.Signature))
		})
		if light {
			continue
		}
		r.try(opParentCheckSigFrom, p.name, func() { tally(p.c.CheckSignatureFrom(c)) })
		r.try(opCheckSig, "as parent of "+p.name, func() { tally(c.CheckSignature(p.c.SignatureAlgorithm, p.c.RawTBSCertificate, p.c.Signature)) })
	}
	r.try(opCheckSigFrom, "self", func() { tally(c.CheckSignatureFrom(c)) })
	algs := h.sigAlgs
	if light {
		algs = []x509.SignatureAlgorithm{c.SignatureAlgorithm}
	}
	for _, alg := range algs {
		alg := alg
		r.try(opCheckSig, fmt.Sprintf("own key, algorithm %d, own signature", int(alg)), func() { tally(c.CheckSignature(alg, c.RawTBSCertificate, c.Signature)) })
		r.try(opCheckSig, fmt.Sprintf("own key, algorithm %d, empty signature", int(alg)), func() { tally(c.CheckSignature(alg, c.RawTBSCertificate, nil)) })
	}
	a.Outcome("sigcheck:ok", nOK)
	a.Outcome("sigcheck:error", nErr)

	// --- hostname verification
	for _, host := range hostnames {
		host := host
		var e error
		if r.try(opVerifyHostname, fmt.Sprintf("%q", host), func() { e = c.VerifyHostname(host); _ = errClass(e) }) {
			a.Outcome("hostname:"+errClass(e), 1)
		}
	}

	// --- name collection and other accessors
	r.try(opNameAcc, "CollectAllNames", func() {
		n1 := c.CollectAllNames()
		for k := 2; k <= reps; k++ {
			n2 := c.CollectAllNames()
			if strings.Join(n1, "\x00") != strings.Join(n2, "\x00") || len(n1) != len(n2) {
				x.Violation("CollectAllNames twice: results differ", opTable[opNameAcc], fmt.Sprintf("call 1 vs %d: %q vs %q", k, n1, n2))
				break
			}
		}
		if len(n1) > 1 {
			a.Outcome("names:several", 1)
		} else {
			a.Outcome("names:<=1", 1)
		}
	})
	r.try(opNameAcc, "GetParsedDNSNames(false)", func() { c.GetParsedDNSNames(false) })
	r.try(opNameAcc, "GetParsedDNSNames(true)", func() { c.GetParsedDNSNames(true) })
	r.try(opNameAcc, "GetParsedDNSNames(false) cached", func() { c.GetParsedDNSNames(false) })
	r.try(opNameAcc, "GetParsedSubjectCommonName(false)", func() { c.GetParsedSubjectCommonName(false) })
	r.try(opNameAcc, "GetParsedSubjectCommonName(true)", func() { c.GetParsedSubjectCommonName(true) })
	r.try(opNameAcc, "GetParsedSubjectCommonName(false) cached", func() { c.GetParsedSubjectCommonName(false) })
	r.try(opNameAcc, "SignatureAlgorithmName", func() { c.SignatureAlgorithmName() })
	r.try(opNameAcc, "PublicKeyAlgorithmName", func() { c.PublicKeyAlgorithmName() })
	r.try(opNameAcc, "JsonifyExtensions", func() { c.JsonifyExtensions() })
	r.try(opNameAcc, "Subject.String", func() { _ = c.Subject.String() })
	r.try(opNameAcc, "Issuer.String", func() { _ = c.Issuer.String() })
	r.try(opNameAcc, "Subject.ToRDNSequence", func() { _ = c.Subject.ToRDNSequence() })
	r.try(opNameAcc, "TimeInValidityPeriod", func() { c.TimeInValidityPeriod(fx.T0) })
	r.try(opNameAcc, "Equal", func() { c.Equal(c) })
	r.try(opSubjectAndKey, "", func() {
		sk := c.SubjectAndKey()
		if sk == nil {
			x.Violation("SubjectAndKey returned nil", opTable[opSubjectAndKey], "")
		}
	})

	// --- QC statements / Tor descriptors
	r.try(opQCTor, "QCStatements", func() {
		if c.QCStatements != nil {
			if _, e := json.Marshal(c.QCStatements); e != nil {
				_ = e.Error()
			}
			if ps := c.QCStatements.ParsedStatements; ps != nil {
				for i := range ps.Types {
					ps.Types[i].MarshalJSON()
				}
			}
			a.Outcome("qc:present", 1)
		}
	})
	r.try(opQCTor, "TorServiceDescriptors", func() {
		for _, d := range c.TorServiceDescriptors {
			json.Marshal(d)
			_ = d.Hash.Hex()
		}
		if len(c.TorServiceDescriptors) > 0 {
			a.Outcome("tor:present", 1)
		}
	})
	r.try(opQCTor, "CABFOrganizationIdentifier/SCTs", func() {
		json.Marshal(c.CABFOrganizationIdentifier)
		json.Marshal(c.SignedCertificateTimestampList)
	})

	// --- pools and chain building
	var inter *x509.CertPool
	r.try(opPool, "AddCert", func() {
		inter = x509.NewCertPool()
		inter.AddCert(c)
		inter.AddCert(c)
		for _, i := range h.graphPar {
			inter.AddCert(h.parents[i].c)
		}
		for _, p := range extra {
			inter.AddCert(p.c)
		}
		if !inter.Contains(c) || inter.Size() < 1 {
			x.Violation("CertPool.AddCert(c): pool does not contain c afterwards", opTable[opPool], "")
		}
		inter.Subjects()
		inter.Covers(h.rootPool)
		inter.Sum(h.rootPool)
		inter.Certificates()
	})
	verify := func(sub string, opts x509.VerifyOptions) {
		var e error
		var cur, exp, nev []x509.CertificateChain
		if r.try(opVerify, sub, func() { cur, exp, nev, e = c.Verify(opts); _ = errClass(e) }) {
			if e == nil {
				a.Outcome(fmt.Sprintf("verify:chains(current=%v,expired=%v,never=%v)", len(cur) > 0, len(exp) > 0, len(nev) > 0), 1)
			} else {
				a.Outcome("verify:error", 1)
			}
		}
	}
	roots := h.rootPool
	if len(extra) > 0 {
		roots = x509.NewCertPool()
		for _, i := range h.graphPar {
			roots.AddCert(h.parents[i].c)
		}
		for _, p := range extra {
			roots.AddCert(p.c)
		}
	}
	if inter != nil {
		verify("roots=parents intermediates={c,parents}", x509.VerifyOptions{Roots: roots, Intermediates: inter, CurrentTime: fx.T0, DNSName: "a.example"})
		verify("roots={c,parents} any usage", x509.VerifyOptions{Roots: inter, Intermediates: roots, CurrentTime: fx.T0, KeyUsages: []x509.ExtKeyUsage{x509.ExtKeyUsageAny}})
	}
	if inter != nil && !light {
		empty := x509.NewCertPool()
		verify("roots={} intermediates={c,parents}", x509.VerifyOptions{Roots: empty, Intermediates: inter, CurrentTime: fx.T0})
		var e error
		if r.try(opValidate, "", func() {
			_, _, e = c.ValidateWithStupidDetail(x509.VerifyOptions{Roots: roots, Intermediates: inter, CurrentTime: fx.T0, DNSName: "a.example"})
			_ = errClass(e)
		}) {
			a.Outcome("validate:"+errClass(e), 1)
		}
	}

	// --- graphs. WalkChains runs in a goroutine started by the library: a panic there cannot be
	// recovered here and kills the worker; the parent attributes it through the progress file.
	gpar := make([]parentCert, 0, 4)
	for _, i := range h.graphPar {
		gpar = append(gpar, parents[i])
	}
	gpar = append(gpar, extra...)
	walk := func(g *verifier.Graph, sub string, who *x509.Certificate) {
		if x.Disabled(opGraphWalk) {
			return
		}
		x.Op(opGraphWalk)
		var chains []x509.CertificateChain
		if r.try(opGraphWalk, sub, func() { chains = g.WalkChains(who) }) {
			if len(chains) > 0 {
				a.Outcome("walk:chains", 1)
			} else {
				a.Outcome("walk:none", 1)
			}
		}
		x.Op(0)
	}
	// (1) c alone
	g1 := verifier.NewGraph()
	walk(g1, "empty graph", c)
	if r.try(opGraphAddCert, "empty graph", func() { g1.AddCert(c); g1.AddCert(c) }) {
		r.try(opGraphAddCert, "accessors", func() {
			g1.Nodes()
			g1.Edges()
			g1.FindEdge(c.FingerprintSHA256)
			g1.FindNode(c.SPKISubjectFingerprint)
			g1.IsRoot(c)
		})
		walk(g1, "graph={c}", c)
		if r.try(opGraphAddRoot, "graph={c}", func() { g1.AddRoot(c) }) {
			walk(g1, "graph={c as root}", c)
		}
	}
	if light {
		jsonTwice("after verification")
		h.resetParents(extra)
		return
	}
	// (2) parents first (as roots), then c
	g2 := verifier.NewGraph()
	okg := r.try(opGraphAddRoot, "parents", func() {
		for _, p := range gpar {
			g2.AddRoot(p.c)
		}
	})
	if okg && r.try(opGraphAddCert, "after parents", func() { g2.AddCert(c) }) {
		walk(g2, "graph={parents as roots, c}", c)
		if !x.Disabled(opVerifierVerify) {
			x.Op(opVerifierVerify)
			r.try(opVerifierVerify, "", func() {
				v := verifier.NewVerifier(g2, &verifier.VerifyProcedureNSS{})
				res := v.Verify(c, verifier.VerificationOptions{VerifyTime: fx.T0, Name: "a.example"})
				if res != nil {
					res.HasTrustedChain()
					res.HadTrustedChain()
					res.MatchesDomain()
				}
			})
			x.Op(0)
		}
	}
	// (3) c first as a root, then the parents (the dangling-edge fix-up path uses c's key as issuer key)
	g3 := verifier.NewGraph()
	if r.try(opGraphAddRoot, "empty graph", func() { g3.AddRoot(c) }) {
		if r.try(opGraphAddCert, "parents after c", func() {
			for _, p := range gpar {
				g3.AddCert(p.c)
			}
		}) {
			walk(g3, "graph={c as root, parents}", c)
			for _, p := range gpar {
				walk(g3, "graph={c as root, parents} from "+p.name, p.c)
			}
		}
	}

	// --- JSON twice again: the verification calls above may set ValidSignature, which is part of
	// the JSON view; the two consecutive serialisations must still agree with each other
	jsonTwice("after verification")

	h.resetParents(extra)
}

// resetParents undoes the only mutation the library performs on the shared
// parent certificates (CertPool.findVerifiedParents / WalkChains set
// ValidSignature), so that no item depends on the items before it.
func (h *handler) resetParents(extra []parentCert) {
	for _, p := range h.parents {
		p.c.ValidSignature = false
	}
	for _, p := range extra {
		p.c.ValidSignature = false
	}
}

// diffClass classifies where two JSON outputs differ (top-level key), so that
// one defect yields one signature.
func diffClass(a, b []byte) string {
	var ma, mb map[string]json.RawMessage
	if json.Unmarshal(a, &ma) != nil || json.Unmarshal(b, &mb) != nil {
		return ""
	}
	var keys []string
	for k, v := range ma {
		if !bytes.Equal(v, mb[k]) {
			keys = append(keys, k)
		}
	}
	if len(keys) == 0 {
		return ""
	}
	// deterministic order
	for i := range keys {
		for j := i + 1; j < len(keys); j++ {
			if keys[j] < keys[i] {
				keys[i], keys[j] = keys[j], keys[i]
			}
		}
	}
	return " in " + strings.Join(keys, ",")
}

func firstDiff(a, b []byte) string {
	n := len(a)
	if len(b) < n {
		n = len(b)
	}
	i := 0
	for i < n && a[i] == b[i] {
		i++
	}
	lo := i - 40
	if lo < 0 {
		lo = 0
	}
	cut := func(s []byte) string {
		hi := i + 60
		if hi > len(s) {
			hi = len(s)
		}
		return string(s[lo:hi])
	}
	return fmt.Sprintf("offset %d: %q vs %q", i, cut(a), cut(b))
}
