// C02 — operations on any parsed certificate are total and deterministic.
//
// Engine E2 (deviation-bounded exhaustive input enumeration). The input
// stream (package certs: the certificate field model with <= d deviations and
// the complete single-mutation menus of certificate seeds) is fed to a strict
// and to a permissive pool of worker processes (asn1.AllowPermissiveParsing is
// a process global). Every element that x509.ParseCertificate accepts is put
// through the operations of ops.go against a fixed pool of candidate parents.
// Oracle: no operation panics (recovered in-process; a panic in a goroutine
// started by the library kills the worker and is attributed by the parent
// through a progress file), two consecutive json.Marshal calls give
// byte-identical valid JSON.
package main

import (
	"encoding/json"
	"fmt"
	"os"
	"sort"
	"strings"
	"time"

	"verifmc/cmd/c02/certs"
	"verifmc/internal/ev"
	"verifmc/internal/nohb"
	"verifmc/internal/xgen"
)

const id = "C02"

func mkUnits(quick bool) []certs.Unit {
	return certs.Units(certs.DefaultConfig(quick), certs.CertSeeds(certs.RepoDir()))
}

func main() {
	if nohb.IsWorker() {
		nohb.WorkerMain(reentrantOps(), certs.RepoDir())
		return
	}
	if certs.IsWorker(id) {
		certs.WorkerMain(id, &handler{}, mkUnits)
		return
	}
	ev.Main(id, "model_checking", run)
}

func capHist(h map[string]int64, prefix string, n int) map[string]int64 {
	type kv struct {
		k string
		v int64
	}
	var sel []kv
	out := map[string]int64{}
	for k, v := range h {
		if strings.HasPrefix(k, prefix) {
			sel = append(sel, kv{k, v})
		} else {
			out[k] = v
		}
	}
	sort.Slice(sel, func(i, j int) bool {
		if sel[i].v != sel[j].v {
			return sel[i].v > sel[j].v
		}
		return sel[i].k < sel[j].k
	})
	var rest, restN int64
	for i, e := range sel {
		if i < n {
			out[e.k] = e.v
		} else {
			rest += e.v
			restN++
		}
	}
	if restN > 0 {
		out[fmt.Sprintf("%s(%d further classes)", prefix, restN)] = rest
	}
	return out
}

func run(c *ev.Ctx) {
	cfg := certs.DefaultConfig(c.Quick())
	seeds := certs.CertSeeds(certs.RepoDir())
	work, cleanup := certs.WorkDir(id)
	defer cleanup()
	if err := certs.SaveSeeds(work+"/seeds.gob", seeds); err != nil {
		c.Broken("cannot write the seed file: %v", err)
	}
	units := certs.Units(cfg, seeds)
	if cfg.ModelDepth >= 3 {
		if got, want := certs.Level3Count(), xgen.CountAssignments(3)-xgen.CountAssignments(2); got != want {
			c.Broken("level-3 units enumerate %d assignments, the model has %d", got, want)
		}
	}
	names, _ := parentDERs()
	c.Rule(certs.Describe(cfg, units) + fmt.Sprintf(". Each accepted certificate c is exercised, in a strict and in a permissive worker pool, with %d operation families "+
		"(json.Marshal twice before and twice after the verification calls, JSON sub-decoders, signature checks in both directions against each accepted member of a fixed list of %d candidate parents "+
		"(one model CA per alternative of the model's key field — the parser accepts 11 of the 26 —, the CA behind selfissued=no; plus per unit the unmutated base certificate and, for minted leaf seeds, the issuing minted CA), "+
		"c.CheckSignature under each of the 18 algorithm values with its own and with an empty signature, VerifyHostname for %d host strings, the name collectors, SubjectAndKey, CertPool insertion + Verify (3 root/intermediate configurations over {c, Ed25519 CA, RSA CA, issuer CA, unit extras}), "+
		"ValidateWithStupidDetail, three verifier.Graph scenarios with AddCert/AddRoot/WalkChains and Verifier.Verify, QC/Tor accessors). "+
		"DETERMINISM: json.Marshal and CollectAllNames are called 2 times per stage on every certificate, and %d times per stage on every TIE-CARRYING certificate = one with two different name strings "+
		"(subject CN, dNSNames, URIs, rfc822Names, printed iPAddresses) that coincide after trimming white space, trailing dots and a trailing '/', removing a wildcard/redaction label, lower-casing and decoding punycode labels (RFC 3492); all results of a stage must be byte-identical. "+
		"BUNDLE units: the bundle is split with the harness's own DER length reader; when every element is accepted by ParseCertificate, each certificate of x509.ParseCertificates(bundle) must serialise twice identically, and its JSON and CollectAllNames must equal those of ParseCertificate on the same DER (no other operation is run on bundle items). "+
		"%s"+
		"distinct_nontrivial = certificates accepted by the permissive pool (states = candidate inputs evaluated, both pools)",
		len(opTable)-2, len(names), len(hostnames), tieReps, lightNote(units)))
	c.Assume("oracle = no panic (recover; for library-started goroutines: death of the worker process, attributed through a progress file), json.Marshal twice byte-identical and json.Valid; a json.Marshal that returns an error both times is counted, not reported (the statement only demands completion)",
		"a stalled worker (no progress for 60 s) is killed and the item re-run once in an isolated process with a 120 s limit; only a second stall is reported as a hang",
		"generators are deterministic: the parent cross-checks an FNV checksum of every unit's inputs between the strict and the permissive pool",
		"parser panics on candidate inputs are C01's subject and only counted here",
		fmt.Sprintf("map iteration order is randomised per range statement (Go specification: unspecified; gc runtime: random start bucket and offset per iteration): an ordering slip that leaves k >= 2 tied names in map order escapes the %d serialisations of one tie-carrying certificate with probability (1/k!)^%d <= 2^-15, and there are hundreds of such certificates per run", tieReps, tieReps-1),
		"which tuples x509.ParseCertificates accepts is not judged here (C06 does); only bundles whose elements are each accepted by ParseCertificate in the pool's mode and that ParseCertificates returns completely are subjects")

	if c.Replay != nil {
		replay(c)
		return
	}

	budget := ev.Pick(c, 105*time.Second, 21*time.Minute)
	if v := os.Getenv("C02_BUDGET"); v != "" {
		if d, err := time.ParseDuration(v); err == nil {
			budget = d
		}
	}
	procs := c.Workers() / 2
	if procs < 1 {
		procs = 1
	}
	res := certs.RunPool(c, certs.PoolConfig{ID: id, Modes: []string{"strict", "permissive"}, Procs: procs, Deadline: c.Start.Add(budget), Ops: opTable},
		units, certs.Order(units, c.Seed))
	report(c, units, res)
	reentrantPhase(c)
}

// lightNote describes the reduced operation set of the units marked Light (thorough tier only).
func lightNote(units []certs.Unit) string {
	n := 0
	for _, u := range units {
		if u.Light {
			n++
		}
	}
	if n == 0 {
		return ""
	}
	return fmt.Sprintf("The %d units of the third model level, of the byte-level menus of seeds outside the quick list and of the pair menus run the REDUCED set: json.Marshal twice before/after, "+
		"CheckSignatureFrom + CheckSignatureFromKey against every candidate parent, self check, own and empty signature under the certificate's own algorithm, VerifyHostname, name collectors, SubjectAndKey, QC/Tor, CertPool + 2 Verify configurations, the single-certificate graph scenario. ", n)
}

func report(c *ev.Ctx, units []certs.Unit, res *certs.Result) {
	if res.Broken != "" && len(res.Viol) == 0 {
		c.Broken("%s", res.Broken)
	}
	if res.Broken != "" {
		c.Incomplete("harness stopped early: " + res.Broken)
	}
	var sigs []string
	for s := range res.Viol {
		sigs = append(sigs, s)
	}
	sort.Strings(sigs)
	occ := map[string]int64{}
	for _, s := range sigs {
		v := res.Viol[s]
		c.Violation(s, v.W)
		occ[s] = v.N
	}
	if len(occ) > 0 {
		c.Set("violation_occurrences", occ)
	}
	for _, s := range res.Incomplete {
		c.Incomplete(s)
	}
	if len(res.Stalls) > 0 {
		c.Set("stalls_not_reproduced", res.Stalls)
	}
	perMode := map[string]any{}
	for _, mr := range res.Modes {
		t := mr.Total
		c.States.Add(t.Items)
		c.Traces.Add(t.Accepted)
		c.Transitions.Add(t.Cnt["ops"])
		c.Evaluations.Add(t.Cnt["evals"])
		if mr.Mode == "permissive" || len(res.Modes) == 1 {
			c.Distinct.Add(t.Accepted)
		}
		h := capHist(t.Hist, "reject:", 12)
		for k, v := range h {
			c.Outcome(mr.Mode+" "+k, v)
		}
		var notDone []string
		for i, u := range units {
			if !mr.Done[i] {
				notDone = append(notDone, u.Name)
			}
		}
		if len(notDone) > 0 {
			sort.Strings(notDone)
			show := notDone
			if len(show) > 6 {
				show = append(append([]string(nil), show[:6]...), fmt.Sprintf("... (%d units)", len(notDone)))
			}
			c.Incomplete(fmt.Sprintf("%s pool: budget reached, %d of %d units not (completely) enumerated: %s", mr.Mode, len(notDone), len(units), strings.Join(show, ", ")))
		}
		// non-vacuity of the two dedicated input families
		var nTie, nBundle int64
		for k, v := range t.Hist {
			switch {
			case strings.HasPrefix(k, "names:tie-carrying"):
				nTie += v
			case strings.HasPrefix(k, "bundle:accept"):
				nBundle += v
			}
		}
		for i, u := range units {
			if mr.Done[i] && u.Kind == "ties" && nTie == 0 {
				c.Incomplete(mr.Mode + " pool: the name-ties unit ran, but no accepted certificate carried tying names")
			}
		}
		if nBundle == 0 {
			for i, u := range units {
				if mr.Done[i] && u.Kind == "bundle" {
					c.Incomplete(mr.Mode + " pool: bundle units ran, but x509.ParseCertificates accepted no bundle")
					break
				}
			}
		}
		perMode[mr.Mode] = map[string]any{"tie_carrying_certificates": nTie, "bundles_compared": nBundle, "candidates": t.Items, "accepted": t.Accepted, "operations": t.Cnt["ops"], "units_done": len(mr.Done),
			"worker_restarts": mr.Restarts, "reject_classes": len(t.Hist) - len(h) + 12}
		for _, s := range t.Samples {
			c.Sample(s)
		}
	}
	c.Set("pools", perMode)
	c.Set("units", len(units))
	// generator determinism: same checksum for every unit done by both pools
	if len(res.Modes) == 2 {
		same, diff := 0, []string{}
		for i := range units {
			a, b := res.Modes[0].Csum[i], res.Modes[1].Csum[i]
			if a == "" || b == "" {
				continue
			}
			if a == b {
				same++
			} else {
				diff = append(diff, units[i].Name)
			}
		}
		c.Set("units_with_identical_input_checksum_in_both_pools", same)
		if len(diff) > 0 {
			c.Broken("generator not deterministic: units %v produced different inputs in the two pools", diff)
		}
	}
	var slow []string
	type um struct {
		n  string
		ms int64
	}
	var ums []um
	for _, mr := range res.Modes {
		for i, ms := range mr.UnitMs {
			ums = append(ums, um{mr.Mode + " " + units[i].Name, ms})
		}
	}
	sort.Slice(ums, func(i, j int) bool { return ums[i].ms > ums[j].ms })
	for i := 0; i < len(ums) && i < 5; i++ {
		slow = append(slow, fmt.Sprintf("%s: %d ms", ums[i].n, ums[i].ms))
	}
	c.Set("slowest_units", slow)
}

// replay re-executes one recorded witness in an isolated process of its mode.
func replay(c *ev.Ctx) {
	var w certs.Witness
	if err := json.Unmarshal(c.Replay, &w); err != nil || w.DER == "" {
		c.Broken("bad witness: %v", err)
	}
	if w.Mode == "" {
		w.Mode = "strict"
	}
	var base []byte
	seed := ""
	if strings.HasPrefix(w.Unit, "model/") || strings.HasPrefix(w.Unit, "bundle/") {
		base = xgen.Encode(xgen.Default())
	} else {
		for _, s := range certs.CertSeeds(certs.RepoDir()) {
			if strings.HasPrefix(w.Unit, "seed/"+s.Name+"/") {
				base, seed = s.Data, s.Name
			}
		}
	}
	acc, finished, site, msg := certs.RunSingle(c, id, w.Mode, w, base, seed, w.Light, 120*time.Second)
	c.States.Add(1)
	switch {
	case !finished:
		c.Violation(fmt.Sprintf("hang [%s]", w.Op), w)
	case acc == nil:
		c.Violation(fmt.Sprintf("panic@%s: %s [%s]", site, certs.MsgClass(msg), w.Op), w)
	default:
		c.Transitions.Add(acc.Cnt["ops"])
		for s, v := range acc.Viol {
			c.Violation(s, v.W)
		}
		for k, v := range acc.Hist {
			c.Outcome(w.Mode+" "+k, v)
		}
	}
}
