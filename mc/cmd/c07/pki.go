package main

// PKI specifications: base topologies, attribute alphabets, deviation atoms,
// minting (every distinct certificate is created once and cached).

import (
	stdrsa "crypto/rsa"
	"crypto/sha256"
	stdx509 "crypto/x509"
	"encoding/hex"
	"fmt"
	"math/big"
	"strings"
	"sync"
	"sync/atomic"
	"time"

	zrsa "github.com/zmap/zcrypto/rsa"
	"github.com/zmap/zcrypto/x509"
	"github.com/zmap/zcrypto/x509/pkix"
	"verifmc/internal/fx"
)

// ---- attribute fields of one certificate -------------------------------

const (
	fCA      = iota // 0 CA (BC present, cA=true) | 1 not-CA (BC present, cA=false) | 2 no BasicConstraints
	fPathLen        // 0 none | 1 pathLen 0 | 2 pathLen 1 | (topologies with PathLen2: 3 pathLen 2)   (only meaningful with fCA==0)
	fEKU            // 0 none | 1 serverAuth | 2 clientAuth | 3 anyExtendedKeyUsage | 4 SGC (Netscape on CAs, Microsoft on the leaf)
	fVal            // 0 base window | 1 nested | 2 disjoint | 3 touching | 4 inverted
	fKID            // 0 SKID+AKID consistent | 1 neither SKID nor AKID | 2 AKID = SKID of a different-name certificate
	fBadSig         // 0 good | 1 last signature byte flipped
	fPool           // 0 pool of its role | 1 additionally in the other pool (leaf: also in Roots) | 2 in no pool
	fNames          // leaf only: 0 SAN=[srv.example] | 1 no SAN, CN=srv.example | 2 SAN=[*.example] | 3 SAN=[other.example], CN=srv.example
	fVer            // 0 X.509 v3 | 1 v1: no version field, no extensions | 2 v2: version field 1, no extensions (hand-encoded TBS, see version.go)
	fKU             // CA roles only: 0 no keyUsage extension | 1 keyUsage = digitalSignature (no keyCertSign) | 2 keyUsage = keyCertSign+cRLSign
	nFields
)

var fieldName = [nFields]string{"ca", "pathlen", "eku", "validity", "kid", "badsig", "pool", "names", "version", "keyusage"}
var fieldMax = [nFields]int{2, 2, 4, 4, 2, 1, 2, 3, 2, 2}
var valueName = [nFields][]string{
	{"CA", "notCA", "noBC"},
	{"none", "0", "1", "2"},
	{"none", "serverAuth", "clientAuth", "any", "SGC"},
	{"base", "nested", "disjoint", "touching", "inverted"},
	{"consistent", "absent", "akid->other-name"},
	{"good", "corrupt"},
	{"role", "both-pools", "no-pool"},
	{"san=srv.example", "cn-only=srv.example", "san=*.example", "san=other.example+cn=srv.example"},
	{"v3", "v1-no-extensions", "v2-no-extensions"},
	{"none", "digitalSignature-only", "keyCertSign+cRLSign"},
}

const (
	roleLeaf = iota
	roleInter
	roleRoot
)

const day = 24 * time.Hour

// validity windows (NotBefore, NotAfter) relative to fx.T0.
var windows = [5][2]time.Duration{
	{-10 * day, 10 * day}, // base
	{-5 * day, 5 * day},   // nested in base
	{6 * day, 8 * day},    // disjoint from "nested"
	{5 * day, 7 * day},    // touches "nested" in exactly one instant, overlaps "disjoint"
	{2 * day, -2 * day},   // inverted: NotBefore > NotAfter
}

// verification instants: every edge of "nested" -1s/0/+1s, interiors, the upper edge of the base window.
var instants = [9]time.Duration{
	0,                    // interior of base and nested
	-5*day - time.Second, // just before nested starts
	-5 * day,             // nested.NotBefore exactly
	-5*day + time.Second, // just inside
	5*day - time.Second,  // just inside the end
	5 * day,              // nested.NotAfter == touching.NotBefore exactly
	5*day + time.Second,  // just after nested, just inside touching
	6*day + 12*time.Hour, // interior of disjoint ∩ touching
	10 * day,             // base.NotAfter exactly
}

// requested usages (symbolic; mapped to zcrypto constants for the call and to
// crypto/x509 constants for the oracle).
var kuOptions = [4][]string{nil, {"any"}, {"client"}, {"server", "client"}}
var dnsOptions = [3]string{"", "srv.example", "www.srv.example"}

func zKU(sym []string) []x509.ExtKeyUsage {
	var out []x509.ExtKeyUsage
	for _, s := range sym {
		switch s {
		case "any":
			out = append(out, x509.ExtKeyUsageAny)
		case "client":
			out = append(out, x509.ExtKeyUsageClientAuth)
		case "server":
			out = append(out, x509.ExtKeyUsageServerAuth)
		}
	}
	return out
}

// ---- topologies ---------------------------------------------------------

type certDef struct {
	Name    string // label in witnesses, "subject/issuer"
	Subj    string // subject CN (entity name)
	Key     string // subject key fixture
	Iss     string // issuer CN ("" = self-signed)
	IssKey  string // key that signs
	Role    int
	Base    [nFields]int
	Mis     string // Name of the certificate whose SKID the "akid->other-name" deviation points at ("" = first CA of another name)
	Entrust bool   // subject public key is the SPKI exempted in CheckSignatureFrom (leaf only)
}

type topology struct {
	Name     string
	Note     string
	Defs     []certDef
	NilInter bool   // VerifyOptions.Intermediates == nil
	MaxD     [2]int // cap on the number of deviations in the quick / thorough tier (0 = tier default)
	Thorough bool   // thorough tier only
	PathLen2 bool   // the path-length alphabet of this topology also has the value 2
	Rejoin   bool   // one intermediate certificate is reachable from the leaf along two different prefixes: the documented
	// per-certificate memo of buildChains then answers the second arrival with the chains of the first
}

func rootC(cn, key string) certDef {
	return certDef{Name: cn + "(" + key + ")", Subj: cn, Key: key, Role: roleRoot}
}
func caC(cn, key, iss, issKey string) certDef {
	return certDef{Name: cn + "(" + key + ")/" + iss + "(" + issKey + ")", Subj: cn, Key: key, Iss: iss, IssKey: issKey, Role: roleInter}
}
func leafC(key, iss, issKey string) certDef {
	d := certDef{Name: "leaf/" + iss + "(" + issKey + ")", Subj: "leaf", Key: key, Iss: iss, IssKey: issKey, Role: roleLeaf}
	d.Base[fCA] = 1
	return d
}
func with(d certDef, field, val int) certDef { d.Base[field] = val; return d }

func crossTopo(name, note string, r1, r2, i1, l string, maxD [2]int) topology {
	return topology{Name: name, Note: note, MaxD: maxD, Defs: []certDef{
		rootC("R1", r1), rootC("R2", r2),
		caC("I1", i1, "R1", r1), caC("I1", i1, "R2", r2),
		leafC(l, "I1", i1)}}
}

func topologies() []topology {
	ts := []topology{
		{Name: "straight", Note: "root -> intermediate -> leaf", Defs: []certDef{
			rootC("R1", "kR1"), caC("I1", "kI1", "R1", "kR1"), leafC("kL", "I1", "kI1")}},
		{Name: "series", Note: "two intermediates in series", Defs: []certDef{
			rootC("R1", "kR1"), caC("I2", "kI2", "R1", "kR1"), caC("I1", "kI1", "I2", "kI2"), leafC("kL", "I1", "kI1")}},
		crossTopo("cross-sign", "I1 certified by R1 and by R2 (same subject and key)", "kR1", "kR2", "kI1", "kL", [2]int{}),
		{Name: "2-cycle", Note: "I1 issued by I2 and I2 issued by I1, I2 also by R1", Defs: []certDef{
			rootC("R1", "kR1"), caC("I2", "kI2", "R1", "kR1"), caC("I1", "kI1", "I2", "kI2"), caC("I2", "kI2", "I1", "kI1"),
			leafC("kL", "I1", "kI1")}},
		{Name: "rollover", Note: "self-issued key rollover of I1 (subject=issuer=I1, new key signed by old key)", Defs: []certDef{
			rootC("R1", "kR1"), caC("I1", "kI1old", "R1", "kR1"), caC("I1", "kI1", "I1", "kI1old"), leafC("kL", "I1", "kI1")}},
		{Name: "twin", Note: "same subject, different key: I1(kI1)/I1(kI1b) and R1(kR1)/R1(kR1b)", Defs: []certDef{
			rootC("R1", "kR1"), rootC("R1", "kR1b"), caC("I1", "kI1", "R1", "kR1"), caC("I1", "kI1b", "R1", "kR1"),
			leafC("kL", "I1", "kI1")}},
		{Name: "bad-edge", Note: "cross-sign where the R1->I1 certificate has a corrupted signature", Defs: []certDef{
			rootC("R1", "kR1"), rootC("R2", "kR2"),
			with(caC("I1", "kI1", "R1", "kR1"), fBadSig, 1), caC("I1", "kI1", "R2", "kR2"),
			leafC("kL", "I1", "kI1")}},
		{Name: "leaf-in-roots", Note: "straight chain, the leaf itself is also in Roots", Defs: []certDef{
			rootC("R1", "kR1"), caC("I1", "kI1", "R1", "kR1"), with(leafC("kL", "I1", "kI1"), fPool, 1)}},
		{Name: "missing-intermediate", Note: "series where the I2 certificate is in no pool", Defs: []certDef{
			rootC("R1", "kR1"), with(caC("I2", "kI2", "R1", "kR1"), fPool, 2), caC("I1", "kI1", "I2", "kI2"), leafC("kL", "I1", "kI1")}},
		{Name: "direct-nil-intermediates", Note: "leaf issued by the root, VerifyOptions.Intermediates == nil", NilInter: true, Defs: []certDef{
			rootC("R1", "kR1"), leafC("kL", "R1", "kR1")}},
		{Name: "diamond", Note: "X reachable from the leaf through I1/X and through I1/I2 -> I2/X (stresses the buildChains memo)", Rejoin: true, Defs: []certDef{
			rootC("R1", "kR1"), caC("X", "kX", "R1", "kR1"), caC("I2", "kI2", "X", "kX"),
			caC("I1", "kI1", "X", "kX"), caC("I1", "kI1", "I2", "kI2"), leafC("kL", "I1", "kI1")}},
		{Name: "same-key-other-name", Note: "J has I1's key but another name; the akid deviation of the leaf points at J", Defs: []certDef{
			rootC("R1", "kR1"), caC("I1", "kS", "R1", "kR1"), caC("J", "kS", "R1", "kR1"),
			func() certDef { d := leafC("kL", "I1", "kS"); d.Mis = "J(kS)/R1(kR1)"; return d }()}},
		{Name: "entrust-spki-leaf", Note: "leaf carries the SPKI exempted in CheckSignatureFrom, issued by a not-CA certificate: isValid is the only CA check", Defs: []certDef{
			rootC("R1", "kR1"), with(caC("I1", "kI1", "R1", "kR1"), fCA, 1),
			func() certDef { d := leafC("", "I1", "kI1"); d.Entrust = true; return d }()}},
		crossTopo("cross-sign-rsa", "cross-sign with RSA keys", "rsa2048", "rsa2048b", "rsa1024", "rsa1024b", [2]int{1, 1}),
		crossTopo("cross-sign-ecdsa", "cross-sign with ECDSA keys", "p256", "p256b", "p384", "p224", [2]int{1, 1}),
		{Name: "diamond-tall", Note: "diamond with one more intermediate Y above the join X; path-length alphabet {none,0,1,2} so that a limit on Y separates the short from the long path",
			MaxD: [2]int{1, 2}, PathLen2: true, Rejoin: true, Defs: []certDef{
				rootC("R1", "kR1"), caC("Y", "kY", "R1", "kR1"), caC("X", "kX", "Y", "kY"), caC("I2", "kI2", "X", "kX"),
				caC("I1", "kI1", "X", "kX"), caC("I1", "kI1", "I2", "kI2"), leafC("kL", "I1", "kI1")}},
		// thorough tier: six entities
		{Name: "series3", Note: "three intermediates in series", Thorough: true, Defs: []certDef{
			rootC("R1", "kR1"), caC("I3", "kI3", "R1", "kR1"), caC("I2", "kI2", "I3", "kI3"), caC("I1", "kI1", "I2", "kI2"),
			leafC("kL", "I1", "kI1")}},
		{Name: "mesh", Note: "two roots, I2 cross-signed by both, I1 issued by I2 and by R1", Thorough: true, MaxD: [2]int{2, 2}, Rejoin: true, Defs: []certDef{
			rootC("R1", "kR1"), rootC("R2", "kR2"), caC("I2", "kI2", "R1", "kR1"), caC("I2", "kI2", "R2", "kR2"),
			caC("I1", "kI1", "I2", "kI2"), caC("I1", "kI1", "R1", "kR1"), leafC("kL", "I1", "kI1")}},
	}
	return ts
}

// ---- deviation atoms ------------------------------------------------------

// quickTier is set by main before the atoms are listed.
var quickTier bool

// atom = (certificate index, field, value). cert == -1: the global "pool order reversed" switch.
type atom struct{ Cert, Field, Val int }

func (t *topology) misTarget(i int) int {
	d := &t.Defs[i]
	if d.Iss == "" {
		return -1
	}
	if d.Mis != "" {
		for j := range t.Defs {
			if t.Defs[j].Name == d.Mis {
				return j
			}
		}
		panic("bad Mis " + d.Mis)
	}
	for j := range t.Defs {
		if j != i && t.Defs[j].Role != roleLeaf && t.Defs[j].Subj != d.Iss {
			return j
		}
	}
	return -1
}

func (t *topology) atoms() []atom {
	out := []atom{{-1, 0, 1}}
	for i := range t.Defs {
		d := &t.Defs[i]
		for f := 0; f < nFields; f++ {
			max := fieldMax[f]
			if f == fPathLen && t.PathLen2 {
				max = 3
			}
			for v := 0; v <= max; v++ {
				if v == d.Base[f] {
					continue
				}
				switch {
				case f == fNames && d.Role != roleLeaf:
					continue
				case f == fKU && d.Role == roleLeaf: // nobody is issued by the leaf: its key usage decides nothing
					continue
				case f == fKU && v == 2 && quickTier: // "keyCertSign present" must behave like "no keyUsage": thorough tier only
					continue
				case f == fPathLen && d.Role == roleLeaf:
					continue
				case f == fBadSig && d.Iss == "": // nobody verifies a root's own signature
					continue
				case f == fKID && v == 2 && t.misTarget(i) < 0:
					continue
				case f == fPool && v == 2 && d.Role == roleLeaf:
					continue
				case f == fPool && v == 1 && d.Role == roleRoot && t.NilInter:
					continue
				}
				out = append(out, atom{i, f, v})
			}
		}
	}
	return out
}

// ---- minting --------------------------------------------------------------

// gcert: one distinct certificate, minted once per process.
type gcert struct {
	id  int
	der []byte
	std *stdx509.Certificate
}

var (
	mintCache sync.Map // spec key -> *gcert
	mintCount atomic.Int64
	nextID    atomic.Int64
)

// wcert: worker-local parse (Verify writes ValidSignature into the certificates it is given).
type wcert struct {
	g    *gcert
	z    *x509.Certificate
	name string
}

func skid(cn, key string) []byte {
	h := sha256.Sum256([]byte("skid|" + cn + "|" + key))
	return h[:8]
}

var entrustPub = sync.OnceValue(func() *zrsa.PublicKey {
	pk, err := stdx509.ParsePKIXPublicKey(x509.VerifC07EntrustSPKI())
	if err != nil {
		panic("entrust spki: " + err.Error())
	}
	rp, ok := pk.(*stdrsa.PublicKey)
	if !ok {
		panic("entrust spki is not RSA")
	}
	return &zrsa.PublicKey{N: rp.N, E: big.NewInt(int64(rp.E))}
})

type mintSpec struct {
	subj, key, iss, issKey string
	serial                 int64
	vals                   [nFields]int
	role                   int
	akid                   []byte // already resolved
	entrust                bool
}

func (m *mintSpec) cacheKey() string {
	return fmt.Sprintf("%s|%s|%s|%s|%d|%v|%d|%x|%v|%d|%d", m.subj, m.key, m.iss, m.issKey, m.serial, m.vals[:fPool], m.vals[fNames], m.akid, m.entrust, m.vals[fVer], m.vals[fKU])
}

func ekuOf(v, role int) []x509.ExtKeyUsage {
	switch v {
	case 1:
		return []x509.ExtKeyUsage{x509.ExtKeyUsageServerAuth}
	case 2:
		return []x509.ExtKeyUsage{x509.ExtKeyUsageClientAuth}
	case 3:
		return []x509.ExtKeyUsage{x509.ExtKeyUsageAny}
	case 4:
		if role == roleLeaf {
			return []x509.ExtKeyUsage{x509.ExtKeyUsageMicrosoftServerGatedCrypto}
		}
		return []x509.ExtKeyUsage{x509.ExtKeyUsageNetscapeServerGatedCrypto}
	}
	return nil
}

func mint(m *mintSpec) (*gcert, error) {
	k := m.cacheKey()
	if g, ok := mintCache.Load(k); ok {
		return g.(*gcert), nil
	}
	cn := m.subj
	var dns []string
	if m.role == roleLeaf {
		switch m.vals[fNames] {
		case 0:
			dns = []string{"srv.example"}
		case 1:
			cn = "srv.example"
		case 2:
			dns = []string{"*.example"}
		case 3:
			cn = "srv.example"
			dns = []string{"other.example"}
		}
	}
	spec := fx.CertSpec{
		CN: cn, Key: m.key, Serial: m.serial,
		IsCA: m.vals[fCA] == 0, NoBC: m.vals[fCA] == 2,
		NotBefore: fx.T0.Add(windows[m.vals[fVal]][0]), NotAfter: fx.T0.Add(windows[m.vals[fVal]][1]),
		DNS: dns, EKU: ekuOf(m.vals[fEKU], m.role),
	}
	if m.vals[fCA] == 0 {
		spec.PathLenP1 = m.vals[fPathLen]
	}
	if m.vals[fKID] != 1 {
		spec.SKID = skid(m.subj, m.key)
		spec.AKID = m.akid
	}
	switch m.vals[fKU] {
	case 1:
		spec.KeyUsage = x509.KeyUsageDigitalSignature
	case 2:
		spec.KeyUsage = x509.KeyUsageCertSign | x509.KeyUsageCRLSign
	}
	var der []byte
	if m.entrust {
		// fx.Mint derives the subject key from a private-key fixture; here only a public key exists.
		t := &x509.Certificate{SerialNumber: big.NewInt(m.serial), Subject: pkix.Name{CommonName: cn},
			NotBefore: spec.NotBefore, NotAfter: spec.NotAfter, DNSNames: dns, ExtKeyUsage: spec.EKU,
			SubjectKeyId: spec.SKID, AuthorityKeyId: spec.AKID}
		if !spec.NoBC {
			t.BasicConstraintsValid, t.IsCA, t.MaxPathLen = true, spec.IsCA, -1
		}
		parent := &x509.Certificate{Subject: pkix.Name{CommonName: m.iss}}
		var err error
		der, err = x509.CreateCertificate(fx.NewRand("mint-entrust"), t, parent, entrustPub(), fx.Signer(m.issKey))
		if err != nil {
			return nil, err
		}
	} else {
		var parent *fx.Cert
		if m.iss != "" {
			parent = &fx.Cert{X: &x509.Certificate{Subject: pkix.Name{CommonName: m.iss}}, Key: fx.Signer(m.issKey)}
		}
		c, err := fx.Mint(spec, parent)
		if err != nil {
			return nil, err
		}
		der = c.DER
	}
	if v := m.vals[fVer]; v != 0 {
		// X.509 v1 / v2: CreateCertificate only issues v3, so the TBSCertificate is re-encoded by hand without
		// the extensions (and with the version field of v1 / v2) and signed again with the issuer's key.
		issKey := m.issKey
		if m.iss == "" {
			issKey = m.key
		}
		var err error
		if der, err = reissueAsVersion(der, v, issKey); err != nil {
			return nil, fmt.Errorf("re-encoding %s as X.509 v%d: %w", k, v, err)
		}
	}
	if m.vals[fBadSig] == 1 {
		der = append([]byte(nil), der...)
		der[len(der)-1] ^= 0x01
	}
	std, err := stdx509.ParseCertificate(der)
	if err != nil {
		return nil, fmt.Errorf("crypto/x509 cannot parse minted certificate %s: %w", k, err)
	}
	if v := m.vals[fVer]; v != 0 && (std.Version != v || len(std.Extensions) != 0) {
		return nil, fmt.Errorf("hand-encoded certificate %s: crypto/x509 reads version %d with %d extensions, want v%d without extensions", k, std.Version, len(std.Extensions), v)
	}
	g := &gcert{id: int(nextID.Add(1)), der: der, std: std}
	if prev, loaded := mintCache.LoadOrStore(k, g); loaded {
		return prev.(*gcert), nil
	}
	mintCount.Add(1)
	return g, nil
}

// ---- a concrete PKI ---------------------------------------------------------

type pki struct {
	topo   *topology
	ti     int
	atoms  []atom
	vals   [][nFields]int
	rev    bool
	certs  []*wcert // by def index
	leaf   *wcert
	roots  []*wcert // pool order
	inters []*wcert
	zRoots *x509.CertPool
	zInter *x509.CertPool
	byPtr  map[*x509.Certificate]*wcert
}

type worker struct {
	parsed map[*gcert]*wcert
	hist   map[string]int64
	// counters flushed at the end
	calls, cases, chains, nontrivial, pkis int64
	missed, beyond, dup                    int64
	missEx                                 map[string]missExample
}

type missExample struct {
	n  int
	ex map[string]any
}

func (w *worker) local(g *gcert, name string) (*wcert, error) {
	if c, ok := w.parsed[g]; ok {
		return c, nil
	}
	z, err := x509.ParseCertificate(g.der)
	if err != nil {
		return nil, err
	}
	c := &wcert{g: g, z: z, name: name}
	w.parsed[g] = c
	return c, nil
}

// effective reports whether the atom set is in canonical form (no deviation
// that cannot change any certificate, e.g. a path length on a non-CA).
func effective(t *topology, as []atom) bool {
	for i, a := range as {
		for _, b := range as[:i] {
			if a.Cert == b.Cert && a.Field == b.Field {
				return false
			}
		}
	}
	// a v1 / v2 certificate has no extensions: deviations of the same certificate that only change extensions
	// (and the two leaf-name shapes that differ from another one by the SAN only) produce the same certificate
	for _, a := range as {
		if a.Cert < 0 || a.Field == fVer {
			continue
		}
		ver := t.Defs[a.Cert].Base[fVer]
		for _, b := range as {
			if b.Cert == a.Cert && b.Field == fVer {
				ver = b.Val
			}
		}
		if ver == 0 {
			continue
		}
		switch a.Field {
		case fCA, fPathLen, fEKU, fKID, fKU:
			return false
		case fNames:
			if a.Val == 2 || a.Val == 3 {
				return false
			}
		}
	}
	for _, a := range as {
		if a.Cert >= 0 && a.Field == fPathLen {
			ca := t.Defs[a.Cert].Base[fCA]
			for _, b := range as {
				if b.Cert == a.Cert && b.Field == fCA {
					ca = b.Val
				}
			}
			if ca != 0 {
				return false
			}
		}
	}
	return true
}

func (w *worker) build(t *topology, ti int, as []atom) (*pki, error) {
	p := &pki{topo: t, ti: ti, atoms: as, vals: make([][nFields]int, len(t.Defs)), certs: make([]*wcert, len(t.Defs)),
		byPtr: map[*x509.Certificate]*wcert{}}
	for i := range t.Defs {
		p.vals[i] = t.Defs[i].Base
	}
	for _, a := range as {
		if a.Cert < 0 {
			p.rev = true
		} else {
			p.vals[a.Cert][a.Field] = a.Val
		}
	}
	for i := range t.Defs {
		d := &t.Defs[i]
		m := &mintSpec{subj: d.Subj, key: d.Key, iss: d.Iss, issKey: d.IssKey, serial: int64(i + 1), vals: p.vals[i], role: d.Role, entrust: d.Entrust}
		if d.Iss != "" {
			switch p.vals[i][fKID] {
			case 0:
				m.akid = skid(d.Iss, d.IssKey)
			case 2:
				j := t.misTarget(i)
				m.akid = skid(t.Defs[j].Subj, t.Defs[j].Key)
			}
		}
		g, err := mint(m)
		if err != nil {
			return nil, err
		}
		c, err := w.local(g, d.Name)
		if err != nil {
			return nil, fmt.Errorf("zcrypto cannot parse minted certificate %s: %w", d.Name, err)
		}
		p.certs[i] = c
		p.byPtr[c.z] = c
	}
	var roots, inters []*wcert
	for i := range t.Defs {
		d := &t.Defs[i]
		c := p.certs[i]
		pool := p.vals[i][fPool]
		switch d.Role {
		case roleLeaf:
			p.leaf = c
			if pool == 1 {
				roots = append(roots, c)
			}
		case roleInter:
			if pool != 2 {
				inters = append(inters, c)
			}
			if pool == 1 {
				roots = append(roots, c)
			}
		case roleRoot:
			if pool != 2 {
				roots = append(roots, c)
			}
			if pool == 1 {
				inters = append(inters, c)
			}
		}
	}
	if p.rev {
		for i, j := 0, len(roots)-1; i < j; i, j = i+1, j-1 {
			roots[i], roots[j] = roots[j], roots[i]
		}
		for i, j := 0, len(inters)-1; i < j; i, j = i+1, j-1 {
			inters[i], inters[j] = inters[j], inters[i]
		}
	}
	p.roots, p.inters = roots, inters
	p.zRoots = x509.NewCertPool()
	for _, c := range roots {
		p.zRoots.AddCert(c.z)
	}
	if !t.NilInter {
		p.zInter = x509.NewCertPool()
		for _, c := range inters {
			p.zInter.AddCert(c.z)
		}
	} else {
		p.inters = nil
	}
	return p, nil
}

func (p *pki) describeAtoms() []string {
	var out []string
	for _, a := range p.atoms {
		if a.Cert < 0 {
			out = append(out, "pool-order=reversed")
			continue
		}
		out = append(out, fmt.Sprintf("%s.%s=%s", p.topo.Defs[a.Cert].Name, fieldName[a.Field], valueName[a.Field][a.Val]))
	}
	return out
}

func (p *pki) names(cs []*wcert) []string {
	out := make([]string, len(cs))
	for i, c := range cs {
		out[i] = c.name
	}
	return out
}

func (p *pki) certHex() map[string]string {
	out := map[string]string{}
	for i, c := range p.certs {
		out[fmt.Sprintf("%d:%s", i, c.name)] = hex.EncodeToString(c.g.der)
	}
	return out
}

func atomClass(as []atom) string {
	var parts []string
	for _, a := range as {
		if a.Cert < 0 {
			parts = append(parts, "order")
		} else {
			parts = append(parts, fieldName[a.Field])
		}
	}
	return strings.Join(parts, "+")
}
