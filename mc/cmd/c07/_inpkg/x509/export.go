package x509

// VerifC07EntrustSPKI exposes the SubjectPublicKeyInfo for which
// CheckSignatureFrom waives the "issuer must be a CA" rule, so that the C07
// harness can build a PKI in which isValid is the only CA check on the path.
func VerifC07EntrustSPKI() []byte { return append([]byte(nil), entrustBrokenSPKI...) }
