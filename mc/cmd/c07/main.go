// C07 — Certificate.Verify returns only valid chains and partitions them by date.
//
// Engine E2 (deviation-bounded enumeration of inputs): hand-listed PKI
// topologies x every set of <= d attribute deviations x verification options.
// The real x509.Certificate.Verify / ValidateWithStupidDetail run on every
// case; every returned chain is judged by a soundness checker that reads the
// certificates through crypto/x509 only (oracle.go).
//
// Certificate VERSION is one of the deviation dimensions: X.509 v1 and v2
// certificates (which CreateCertificate cannot issue) are hand-encoded and
// signed with the standard library (version.go) for leaf, intermediate and
// root positions; a v1 / v2 intermediate is never a CA certificate.
package main

import (
	stdx509 "crypto/x509"
	"encoding/json"
	"fmt"
	"sort"
	"strings"
	"sync"
	"time"

	"github.com/zmap/zcrypto/x509"
	"verifmc/internal/ev"
	"verifmc/internal/fx"
)

type job struct {
	topo  int
	atoms []atom
	full  bool // full option product (else the "star": all instants x default options, one instant x all usages x all names)
}

type optCase struct{ T, KU, DNS int }

func optionSet(full bool) []optCase {
	var out []optCase
	if full {
		for t := range instants {
			for k := range kuOptions {
				for d := range dnsOptions {
					out = append(out, optCase{t, k, d})
				}
			}
		}
		return out
	}
	for t := range instants {
		out = append(out, optCase{t, 0, 0})
	}
	for k := range kuOptions {
		for d := range dnsOptions {
			if k != 0 || d != 0 {
				out = append(out, optCase{0, k, d})
			}
		}
	}
	return out
}

// one Verify call and what it returned
type result struct {
	lists    [3][][]*gcert // current, expired, never
	foreign  bool          // a returned certificate is not one of the supplied ones
	err      error
	panicked bool
	pmsg     string
	psite    string
}

func (r *result) total() int { return len(r.lists[0]) + len(r.lists[1]) + len(r.lists[2]) }

func errClass(err error) string {
	switch e := err.(type) {
	case nil:
		return "nil"
	case x509.CertificateInvalidError:
		return "CertificateInvalidError:" + strings.TrimPrefix(e.Error(), "x509: ")
	case x509.UnknownAuthorityError:
		return "UnknownAuthorityError"
	case x509.HostnameError:
		return "HostnameError"
	default:
		return fmt.Sprintf("%T:%s", err, ev.MsgClass(err.Error()))
	}
}

func (p *pki) opts(o optCase) x509.VerifyOptions {
	return x509.VerifyOptions{
		DNSName:       dnsOptions[o.DNS],
		Intermediates: p.zInter,
		Roots:         p.zRoots,
		CurrentTime:   fx.T0.Add(instants[o.T]),
		KeyUsages:     zKU(kuOptions[o.KU]),
	}
}

func (p *pki) convert(chains []x509.CertificateChain, foreign *bool) [][]*gcert {
	out := make([][]*gcert, 0, len(chains))
	for _, ch := range chains {
		g := make([]*gcert, 0, len(ch))
		for _, z := range ch {
			w, ok := p.byPtr[z]
			if !ok && z != nil {
				for _, c := range p.certs {
					if string(c.g.der) == string(z.Raw) {
						w, ok = c, true
					}
				}
			}
			if !ok {
				*foreign = true
				continue
			}
			g = append(g, w.g)
		}
		out = append(out, g)
	}
	return out
}

func (p *pki) verify(o optCase) *result {
	r := &result{}
	opts := p.opts(o)
	var cur, exp, nev []x509.CertificateChain
	r.panicked, r.pmsg, r.psite = ev.Try(func() {
		cur, exp, nev, r.err = p.leaf.z.Verify(opts)
	})
	r.lists[0] = p.convert(cur, &r.foreign)
	r.lists[1] = p.convert(exp, &r.foreign)
	r.lists[2] = p.convert(nev, &r.foreign)
	return r
}

type witness struct {
	Topology   string            `json:"topology"`
	Note       string            `json:"note"`
	TopoIdx    int               `json:"topo_idx"`
	Atoms      []atom            `json:"atoms"`
	Deviations []string          `json:"deviations"`
	Opt        optCase           `json:"opt"`
	Time       string            `json:"current_time"`
	KeyUsages  []string          `json:"key_usages"`
	DNSName    string            `json:"dns_name"`
	Roots      []string          `json:"roots"`
	Inter      []string          `json:"intermediates"`
	NilInter   bool              `json:"intermediates_nil"`
	Chain      []string          `json:"chain,omitempty"`
	List       string            `json:"list,omitempty"`
	Detail     string            `json:"detail"`
	Err        string            `json:"verify_error"`
	Certs      map[string]string `json:"certs_der_hex"`
}

type checker struct {
	c *ev.Ctx
	w *worker
}

func (k *checker) violation(p *pki, o optCase, r *result, sig string, chain []*gcert, list, detail string) {
	w := witness{Topology: p.topo.Name, Note: p.topo.Note, TopoIdx: p.ti, Atoms: p.atoms, Deviations: p.describeAtoms(), Opt: o,
		Time: fx.T0.Add(instants[o.T]).Format(time.RFC3339), KeyUsages: kuOptions[o.KU], DNSName: dnsOptions[o.DNS],
		Roots: p.names(p.roots), Inter: p.names(p.inters), NilInter: p.topo.NilInter, List: list, Detail: detail, Certs: p.certHex()}
	if r != nil && r.err != nil {
		w.Err = r.err.Error()
	}
	for _, g := range chain {
		name := "?"
		for _, c := range p.certs {
			if c.g == g {
				name = c.name
			}
		}
		w.Chain = append(w.Chain, name)
	}
	k.c.Violation(sig, w)
}

var listName = [3]string{"current", "expired", "never"}
var listClass = [3]int{clCurrent, clExpired, clNever}

// judge applies the statement to one Verify result.
func (k *checker) judge(p *pki, o optCase, r *result) {
	h := k.w.hist
	if r.panicked {
		k.violation(p, o, r, "panic@"+r.psite+": "+ev.MsgClass(r.pmsg), nil, "", r.pmsg)
		h["verify:panic"]++
		return
	}
	if r.foreign {
		k.violation(p, o, r, "returned chain contains a certificate that was not supplied", nil, "", "")
	}
	now := fx.T0.Add(instants[o.T])
	where := map[string]int{}
	dup := false
	for li := 0; li < 3; li++ {
		seen := map[string]bool{}
		for _, ch := range r.lists[li] {
			k.w.chains++
			for _, f := range chainFlaws(ch, p.leaf.g, p.roots, kuOptions[o.KU]) {
				k.violation(p, o, r, "unsound chain: "+f.class, ch, listName[li], f.detail)
			}
			if len(ch) == 0 {
				continue
			}
			if lib, strict := ekuJudge(ch, kuOptions[o.KU]); lib && !strict {
				// "Key usage is considered a constraint down the chain" (VerifyOptions.KeyUsages): a chain satisfies the
				// request only when ONE requested usage survives every certificate. 0 cases on the unchanged tree.
				k.violation(p, o, r, "unsound chain: every certificate permits some requested usage but no single requested usage is permitted by all of them", ch, listName[li], "")
				h["eku:chain accepted without a usage common to all its certificates"]++
			}
			accept, boundary := dateClasses(ch, now)
			if accept&listClass[li] == 0 {
				want := []string{}
				for _, c := range []int{clCurrent, clExpired, clNever} {
					if accept&c != 0 {
						want = append(want, className[c])
					}
				}
				k.violation(p, o, r, fmt.Sprintf("partition: chain whose common window makes it %s is listed as %s", strings.Join(want, "|"), listName[li]), ch, listName[li], "")
			}
			// certificate version / key usage of the certificates in returned chains (non-vacuity of those dimensions;
			// an intermediate of version 1 / 2 is never a CA and already an "unsound chain" above)
			if v := ch[0].std.Version; v != 3 {
				h[fmt.Sprintf("version:returned chain starts at a v%d leaf", v)]++
			}
			if v := ch[len(ch)-1].std.Version; v != 3 && len(ch) > 1 {
				h[fmt.Sprintf("version:returned chain ends at a trusted v%d root", v)]++
			}
			for _, g := range ch[1:] {
				if ku := g.std.KeyUsage; ku != 0 && ku&stdx509.KeyUsageCertSign == 0 {
					h["keyusage:returned chain has an issuer whose keyUsage lacks keyCertSign (statement silent: accepted)"]++
				} else if ku != 0 {
					h["keyusage:returned chain has an issuer whose keyUsage includes keyCertSign"]++
				}
			}
			cls := "chain:" + listName[li]
			if boundary {
				cls += "@boundary"
			}
			h[cls]++
			id := chainID(ch)
			if seen[id] {
				dup = true
			}
			seen[id] = true
			where[id] |= 1 << li
		}
	}
	for id, m := range where {
		if m&(m-1) != 0 {
			k.violation(p, o, r, "partition: the same chain is in more than one list", nil, "", id)
		}
	}
	if dup {
		k.w.dup++
		h["info:a chain is returned twice within one list"]++
	}
	if r.err == nil {
		if len(r.lists[0]) == 0 {
			k.violation(p, o, r, "nil error without a current chain", nil, "", "")
		}
		if d := dnsOptions[o.DNS]; d != "" && !refHostMatch(p.leaf.g, d) {
			k.violation(p, o, r, "nil error although the requested DNS name does not match the certificate", nil, "", d)
		}
	}
	h["verify:"+errClass(r.err)+fmt.Sprintf(" chains=%s", bucket(r.total()))]++
	if r.total() > 0 {
		k.w.nontrivial++
	}
}

func bucket(n int) string {
	switch {
	case n == 0:
		return "0"
	case n == 1:
		return "1"
	case n <= 3:
		return "2-3"
	}
	return "4+"
}

func multiset(chs [][]*gcert) string {
	ids := make([]string, len(chs))
	for i, c := range chs {
		ids[i] = chainID(c)
	}
	sort.Strings(ids)
	return strings.Join(ids, "|")
}

// stupid compares ValidateWithStupidDetail with Verify where they overlap: it is
// documented (and coded) as Verify with default key usages plus a separate
// host-name verdict. base = Verify(time, default usages, DNSName ""), named =
// Verify(time, default usages, the DNS name).
func (k *checker) stupid(p *pki, o optCase, base, named *result) {
	if base.panicked || named.panicked {
		return
	}
	opts := p.opts(o)
	var chains []x509.CertificateChain
	var val *x509.Validation
	var err error
	if pn, msg, site := ev.Try(func() { chains, val, err = p.leaf.z.ValidateWithStupidDetail(opts) }); pn {
		k.violation(p, o, nil, "panic@"+site+": "+ev.MsgClass(msg), nil, "", msg)
		return
	}
	k.w.calls++
	foreign := false
	got := p.convert(chains, &foreign)
	d := dnsOptions[o.DNS]
	match := d != "" && refHostMatch(p.leaf.g, d)
	bad := func(what, detail string) {
		k.violation(p, o, base, "ValidateWithStupidDetail disagrees with Verify: "+what, nil, "", detail)
	}
	if foreign || multiset(got) != multiset(base.lists[0]) {
		bad("chains differ from Verify's current chains", fmt.Sprintf("%d vs %d", len(got), len(base.lists[0])))
	}
	if val == nil {
		bad("nil Validation", "")
		return
	}
	if val.BrowserTrusted != (base.err == nil) {
		bad("BrowserTrusted differs from (Verify error == nil)", fmt.Sprintf("trusted=%v verify err=%v", val.BrowserTrusted, base.err))
	}
	if (val.BrowserError == "") != (base.err == nil) || (base.err != nil && val.BrowserError != base.err.Error()) {
		bad("BrowserError differs from Verify's error", val.BrowserError)
	}
	if val.Domain != d {
		bad("Domain is not the requested name", val.Domain)
	}
	if val.MatchesDomain != match {
		bad("MatchesDomain differs from the host-name model", fmt.Sprintf("got %v want %v", val.MatchesDomain, match))
	}
	if (err == nil) != (named.err == nil) {
		bad("error nil-ness differs from Verify with the same DNS name", fmt.Sprintf("stupid err=%v verify err=%v", err, named.err))
	}
	if (err == nil) != (base.err == nil && (d == "" || match)) {
		bad("error nil-ness differs from (chains ok and name ok)", fmt.Sprintf("err=%v", err))
	}
	k.w.hist[fmt.Sprintf("stupid:trusted=%v matches=%v err-nil=%v", val.BrowserTrusted, val.MatchesDomain, err == nil)]++
}

// refSet: the reference-valid chains of one (PKI, requested usages) pair with, per chain, the documented rule
// that would explain its absence from Verify's answer.
type refSet struct {
	chains [][]*gcert
	ids    []string
	reason []string
}

func newRefSet(p *pki, ku int) *refSet {
	rs := &refSet{chains: refChains(p, kuOptions[ku])}
	for _, ch := range rs.chains {
		rs.ids = append(rs.ids, chainID(ch))
		rs.reason = append(rs.reason, missReason(p, ch))
	}
	return rs
}

func (p *pki) chainNames(ch []*gcert) []string {
	var names []string
	for _, g := range ch {
		for _, c := range p.certs {
			if c.g == g {
				names = append(names, c.name)
				break
			}
		}
	}
	return names
}

// complete is the completeness / non-vacuity oracle. The statement promises soundness only, so a missing chain is
// a verdict only where nothing documented can explain it:
//   - a reference-valid chain that no rule of the search prunes (missReason == reasonOther) must be returned
//     (buildChains: "returns all chains of length < maxIntermediateCount");
//   - in a 0-deviation PKI every date class that holds a reference-valid chain (not pruned by a per-chain rule)
//     away from a window boundary must be non-empty in Verify's answer, also where the memo may swap chains.
//
// Chain building does not depend on the time or the DNS name, so this runs on every case; the information
// counters are fed by the (instant 0, no DNS name) case only.
func (k *checker) complete(p *pki, o optCase, r *result, rs *refSet) {
	count := o.T == 0 && o.DNS == 0
	now := fx.T0.Add(instants[o.T])
	got := map[string]bool{}
	for li := range r.lists {
		for _, ch := range r.lists[li] {
			got[chainID(ch)] = true
		}
	}
	refIDs := map[string]bool{}
	var wantClass [3]bool
	var wantEx [3][]*gcert
	for i, ch := range rs.chains {
		id, why := rs.ids[i], rs.reason[i]
		refIDs[id] = true
		if why == reasonOther || why == reasonRejoin {
			if accept, boundary := dateClasses(ch, now); !boundary {
				for li := range listClass {
					if accept == listClass[li] {
						wantClass[li], wantEx[li] = true, ch
					}
				}
			}
		}
		if got[id] {
			continue
		}
		if why == reasonOther {
			k.violation(p, o, r, "completeness: a chain that satisfies every clause of the statement and that no documented rule of the search prunes is not returned (Verify returned "+bucket(r.total())+" chains)",
				ch, "", "requested usages "+fmt.Sprint(requested(kuOptions[o.KU])))
		}
		if !count {
			continue
		}
		k.w.missed++
		k.w.hist["info:missed reference-valid chain: "+why]++
		if why == reasonRejoin {
			key := p.topo.Name
			if _, ok := k.w.missEx[key]; !ok || len(p.atoms) < k.w.missEx[key].n {
				k.w.missEx[key] = missExample{len(p.atoms), map[string]any{"deviations": p.describeAtoms(), "usages": kuOptions[o.KU], "missed_chain": p.chainNames(ch), "returned": r.total()}}
			}
		}
	}
	if len(p.atoms) == 0 {
		for li := range wantClass {
			if wantClass[li] && len(r.lists[li]) == 0 {
				k.violation(p, o, r, "non-vacuity: the 0-deviation PKI has a reference-valid "+listName[li]+" chain but Verify lists no "+listName[li]+" chain", wantEx[li], listName[li], "")
			}
		}
		if count {
			k.w.hist[fmt.Sprintf("baseline: reference chains=%s returned=%s", bucket(len(rs.chains)), bucket(r.total()))]++
		}
	}
	if !count {
		return
	}
	for id := range got {
		if !refIDs[id] {
			k.w.beyond++
			k.w.hist["info:returned chain outside the strictest reading (sound under the accepted alternatives)"]++
		}
	}
	k.w.hist["ref:reference-valid chains="+bucket(len(rs.chains))]++
}

func (k *checker) runPKI(p *pki, full bool) {
	k.w.pkis++
	res := map[optCase]*result{}
	for _, o := range optionSet(full) {
		r := p.verify(o)
		k.w.calls++
		k.w.cases++
		res[o] = r
		k.judge(p, o, r)
	}
	// completeness / non-vacuity against the reference enumeration (one per requested usage list)
	var refs [len(kuOptions)]*refSet
	for _, o := range optionSet(full) {
		r := res[o]
		if r.panicked {
			continue
		}
		if refs[o.KU] == nil {
			refs[o.KU] = newRefSet(p, o.KU)
		}
		k.complete(p, o, r, refs[o.KU])
	}
	// ValidateWithStupidDetail on the overlap (default usages)
	for o, named := range res {
		if o.KU != 0 {
			continue
		}
		if !full && !(o.T == 0 || o.T == 5) {
			continue
		}
		base := res[optCase{o.T, 0, 0}]
		if base == nil {
			continue
		}
		k.stupid(p, o, base, named)
	}
}

func choose(n, k int, f func(idx []int)) {
	idx := make([]int, k)
	var rec func(pos, start int)
	rec = func(pos, start int) {
		if pos == k {
			f(idx)
			return
		}
		for i := start; i < n; i++ {
			idx[pos] = i
			rec(pos+1, i+1)
		}
	}
	rec(0, 0)
}

func main() {
	ev.Main("C07", "model_checking", func(c *ev.Ctx) {
		tops := topologies()
		newWorker := func() *worker {
			return &worker{parsed: map[*gcert]*wcert{}, hist: map[string]int64{}, missEx: map[string]missExample{}}
		}

		if c.Replay != nil {
			var w witness
			if err := json.Unmarshal(c.Replay, &w); err != nil {
				c.Broken("bad witness: %v", err)
			}
			if w.TopoIdx < 0 || w.TopoIdx >= len(tops) {
				c.Broken("bad topology index")
			}
			wk := newWorker()
			p, err := wk.build(&tops[w.TopoIdx], w.TopoIdx, w.Atoms)
			if err != nil {
				c.Broken("build: %v", err)
			}
			k := &checker{c, wk}
			r := p.verify(w.Opt)
			k.judge(p, w.Opt, r)
			if !r.panicked {
				k.complete(p, w.Opt, r, newRefSet(p, w.Opt.KU))
			}
			k.stupid(p, w.Opt, p.verify(optCase{w.Opt.T, 0, 0}), p.verify(optCase{w.Opt.T, 0, w.Opt.DNS}))
			fmt.Printf("replayed %s %v %+v: err=%v current=%d expired=%d never=%d\n", p.topo.Name, p.describeAtoms(), w.Opt, r.err, len(r.lists[0]), len(r.lists[1]), len(r.lists[2]))
			c.States.Add(1)
			c.Transitions.Add(wk.calls + 3)
			return
		}

		maxD := ev.Pick(c, 2, 3)
		quickTier = c.Quick()
		c.Rule(fmt.Sprintf("PKI = one of %d hand-listed topologies (<= %d entities) with every set of <= %d deviations over per-certificate fields "+
			"{ca 3 (CA | BasicConstraints cA=false | no BasicConstraints), pathlen 3 (4 in diamond-tall), eku 5, validity 5, kid 3, badsig 2, pool 3, leaf names 4, "+
			"version 3 (v3 | v1 | v2: hand-encoded TBSCertificate without extensions, signed with the standard library, for leaf, intermediate and root positions), "+
			"keyusage on CA positions (none | digitalSignature only | thorough tier: keyCertSign+cRLSign)} and pool order {as listed, reversed}; per-topology caps: RSA/ECDSA <= 1, diamond-tall <= 1 quick / 2 thorough, mesh <= 2. "+
			"Options: PKIs with < d deviations get the full product 9 instants x 4 usage lists x 3 DNS names (108), PKIs with exactly d deviations get all 9 instants at default options plus all 12 usage x name pairs at one instant (20). "+
			"ValidateWithStupidDetail runs on every default-usage case (full) or at instants 0 and 5 (star). Every case is also compared with the reference enumeration of the chains that satisfy the statement (completeness / non-vacuity, see assumptions). A case is non-trivial when Verify returned at least one chain.",
			len(tops), 6, maxD))
		c.Assume("crypto/x509 parses the minted DER and decides signature validity, CA flag, path length, EKU, validity and names for the oracle",
			"certificates are minted with zcrypto x509.CreateCertificate (through fx.Mint); a certificate that either parser rejects stops the run as broken",
			"X.509 v1 / v2 certificates are the minted certificate's TBSCertificate re-encoded with encoding/asn1 without version-3 fields and signed again with crypto/rsa, crypto/ecdsa, crypto/ed25519 (version.go); crypto/x509 must read back the version and no extensions",
			"a v1 / v2 certificate is never a CA certificate (no basic constraints): as an intermediate it makes a chain unsound; as a leaf it is fine; in Roots it is a trust anchor (roots are not required to be CAs) and — crypto/x509 and RFC 5280 4.2.1.9 agreeing — a chain to it must be returned like a chain to a v3 CA root (completeness guard)",
			"key usage: the statement is silent; CheckSignatureFrom documents that an issuer whose keyUsage extension lacks keyCertSign is refused — chains through such an issuer are accepted returned or not (counted), an issuer with keyCertSign behaves like one without the extension",
			"roots are not required to be CA certificates or within a path-length limit (the statement speaks of intermediates)",
			"self-issued intermediates may or may not count towards a path-length limit",
			"at an instant equal to an end of the common window both neighbouring classes are accepted; a one-instant window may be listed as never-valid",
			"EKU: a chain satisfies the request when ONE requested usage is permitted by every certificate of the chain (usages are 'a constraint down the chain', VerifyOptions.KeyUsages; no EKU list or anyExtendedKeyUsage permits everything, SGC counts as serverAuth as coded, a requested ExtKeyUsageAny accepts every chain)",
			"completeness is not promised by the statement and is demanded only as a non-vacuity guard: a chain that satisfies every clause under the strictest reading (crypto/x509-based enumeration over the supplied pools) must be returned unless a documented rule of the search explains its absence — leaf in Roots (one-certificate answer), a repeated (subject, key) pair, a version 3 root that is not a CA or a root beyond its own path-length limit, an issuer whose keyUsage lacks keyCertSign, an intermediate that is itself in Roots, an AKID that selects candidates by key id, or an intermediate that can be arrived at from the leaf along two different prefixes (per-certificate memo: counted, and the 0-deviation PKI must still list a chain in every date class that holds one)",
			"a chain returned twice inside one list is recorded, not flagged")

		// the Entrust topology only does its job if the minted SPKI is byte-identical to the exempted one
		{
			wk := newWorker()
			for ti := range tops {
				if tops[ti].Name != "entrust-spki-leaf" {
					continue
				}
				p, err := wk.build(&tops[ti], ti, nil)
				if err != nil {
					c.Broken("entrust topology: %v", err)
				}
				same := string(p.leaf.z.RawSubjectPublicKeyInfo) == string(x509.VerifC07EntrustSPKI())
				c.Set("entrust_spki_exemption_reached", same)
				if !same {
					c.Broken("minted Entrust SPKI differs from the exempted bytes")
				}
			}
		}

		var jobs []job
		perTopo := map[string]int{}
		for ti := range tops {
			t := &tops[ti]
			if t.Thorough && c.Quick() {
				continue
			}
			d := maxD
			if cap := t.MaxD[ev.Pick(c, 0, 1)]; cap > 0 && cap < d {
				d = cap
			}
			as := t.atoms()
			for k := 0; k <= d; k++ {
				choose(len(as), k, func(idx []int) {
					sel := make([]atom, k)
					for i, x := range idx {
						sel[i] = as[x]
					}
					if !effective(t, sel) {
						return
					}
					jobs = append(jobs, job{ti, sel, k < d || d < maxD})
					perTopo[t.Name]++
				})
			}
		}
		c.Set("pkis_per_topology", perTopo)
		c.Set("max_deviations", maxD)

		// order: cheap, varied work first so that a budget stop still covers every topology at low d
		sort.SliceStable(jobs, func(i, j int) bool { return len(jobs[i].atoms) < len(jobs[j].atoms) })

		W := c.Workers()
		workers := make([]*worker, W)
		for i := range workers {
			workers[i] = newWorker()
		}
		var bmu sync.Mutex
		var broken string
		var done = make([]bool, len(jobs))
		ok := c.Parallel(len(jobs), func(wi, i int) {
			wk := workers[wi]
			j := jobs[i]
			p, err := wk.build(&tops[j.topo], j.topo, j.atoms)
			if err != nil {
				bmu.Lock()
				broken = err.Error()
				bmu.Unlock()
				return
			}
			k := &checker{c, wk}
			k.runPKI(p, j.full)
			done[i] = true
			if i%997 == 0 && c.WantSample() {
				r := p.verify(optCase{0, 0, 1})
				c.Sample(map[string]any{"topology": p.topo.Name, "deviations": p.describeAtoms(), "options": "T0, default usages, srv.example",
					"error": errClass(r.err), "current": len(r.lists[0]), "expired": len(r.lists[1]), "never": len(r.lists[2])})
			}
		})
		if broken != "" {
			c.Broken("cannot build a PKI: %s", broken)
		}
		if !ok {
			n, byD := 0, map[int]int{}
			for i, d := range done {
				if !d {
					n++
					byD[len(jobs[i].atoms)]++
				}
			}
			c.Incomplete(fmt.Sprintf("budget reached: %d of %d PKIs not evaluated (by number of deviations: %v)", n, len(jobs), byD))
		}
		var missed, beyond, dup int64
		missEx := map[string]missExample{}
		for _, wk := range workers {
			for t, e := range wk.missEx {
				if cur, ok := missEx[t]; !ok || e.n < cur.n || (e.n == cur.n && fmt.Sprint(e.ex) < fmt.Sprint(cur.ex)) {
					missEx[t] = e
				}
			}
			c.Merge(wk.hist)
			c.States.Add(wk.pkis)
			c.Transitions.Add(wk.calls)
			c.Traces.Add(wk.cases)
			c.Evaluations.Add(wk.chains)
			c.Distinct.Add(wk.nontrivial)
			missed += wk.missed
			beyond += wk.beyond
			dup += wk.dup
		}
		exOut := map[string]any{}
		for t, e := range missEx {
			exOut[t] = e.ex
		}
		c.Set("info_missed_by_rejoin_smallest_example_per_topology", exOut)
		c.Set("pkis", len(jobs))
		c.Set("distinct_certificates_minted", mintCount.Load())
		c.Set("info_reference_valid_chains_not_returned", missed)
		c.Set("info_returned_chains_outside_strictest_reading", beyond)
		c.Set("info_cases_with_duplicate_chain_in_a_list", dup)
		c.Set("counters", "states=PKIs, transitions=Verify+ValidateWithStupidDetail calls, traces=(PKI,options) cases judged, evaluations=returned chains judged, distinct=cases with >=1 returned chain")
	})
}
