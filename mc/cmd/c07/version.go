package main

// X.509 v1 / v2 certificates. x509.CreateCertificate only issues version 3, so the
// certificate VERSION dimension of the PKI model is hand-encoded: the TBSCertificate of
// a certificate minted the usual way is taken apart with the standard encoding/asn1,
// put together again without the [0] version, [1]/[2] unique identifiers and [3]
// extensions (RFC 5280 §4.1: extensions exist in v3 only; DEFAULT v1 is not encoded,
// v2 is "[0] EXPLICIT INTEGER 1"), and signed again — with the signature algorithm the
// certificate names — by the issuer's fixture key through the standard library's
// crypto/rsa, crypto/ecdsa and crypto/ed25519. Nothing of zcrypto takes part.

import (
	"bytes"
	"crypto"
	"crypto/ecdsa"
	"crypto/ed25519"
	stdrsa "crypto/rsa"
	_ "crypto/sha1"
	_ "crypto/sha256"
	_ "crypto/sha512"
	stdx509 "crypto/x509"
	stdasn1 "encoding/asn1"
	"fmt"

	"verifmc/internal/fx"
)

var sigHash = map[stdx509.SignatureAlgorithm]crypto.Hash{
	stdx509.SHA1WithRSA: crypto.SHA1, stdx509.SHA256WithRSA: crypto.SHA256, stdx509.SHA384WithRSA: crypto.SHA384, stdx509.SHA512WithRSA: crypto.SHA512,
	stdx509.ECDSAWithSHA1: crypto.SHA1, stdx509.ECDSAWithSHA256: crypto.SHA256, stdx509.ECDSAWithSHA384: crypto.SHA384, stdx509.ECDSAWithSHA512: crypto.SHA512,
}

func derSeq(body []byte) ([]byte, error) {
	return stdasn1.Marshal(stdasn1.RawValue{Class: stdasn1.ClassUniversal, Tag: stdasn1.TagSequence, IsCompound: true, Bytes: body})
}

// reissueAsVersion returns the certificate der re-encoded as X.509 version ver (1 or 2) without extensions,
// signed by the fixture key issKey.
func reissueAsVersion(der []byte, ver int, issKey string) ([]byte, error) {
	if ver != 1 && ver != 2 {
		return nil, fmt.Errorf("version %d is not hand-encoded", ver)
	}
	var outer struct {
		TBS stdasn1.RawValue
		Alg stdasn1.RawValue
		Sig stdasn1.BitString
	}
	if rest, err := stdasn1.Unmarshal(der, &outer); err != nil || len(rest) != 0 {
		return nil, fmt.Errorf("outer structure: %v (%d trailing bytes)", err, len(rest))
	}
	c, err := stdx509.ParseCertificate(der)
	if err != nil {
		return nil, err
	}
	var body []byte
	if ver == 2 {
		body = append(body, 0xa0, 0x03, 0x02, 0x01, 0x01) // [0] EXPLICIT INTEGER 1
	}
	kept := 0
	for rest := outer.TBS.Bytes; len(rest) > 0; {
		var el stdasn1.RawValue
		if rest, err = stdasn1.Unmarshal(rest, &el); err != nil {
			return nil, fmt.Errorf("TBSCertificate element: %v", err)
		}
		if el.Class == stdasn1.ClassContextSpecific { // [0] version, [1] [2] unique identifiers, [3] extensions
			continue
		}
		body = append(body, el.FullBytes...)
		kept++
	}
	if kept != 6 { // serialNumber, signature, issuer, validity, subject, subjectPublicKeyInfo
		return nil, fmt.Errorf("TBSCertificate has %d universal elements, want 6", kept)
	}
	tbs, err := derSeq(body)
	if err != nil {
		return nil, err
	}
	var sig []byte
	rnd := fx.NewRand("c07-reissue|" + issKey + "|" + string(tbs))
	switch alg := c.SignatureAlgorithm; alg {
	case stdx509.PureEd25519:
		sig = ed25519.Sign(fx.Ed(issKey), tbs)
	case stdx509.SHA1WithRSA, stdx509.SHA256WithRSA, stdx509.SHA384WithRSA, stdx509.SHA512WithRSA:
		h := sigHash[alg].New()
		h.Write(tbs)
		if sig, err = stdrsa.SignPKCS1v15(rnd, fx.StdRSA(issKey), sigHash[alg], h.Sum(nil)); err != nil {
			return nil, err
		}
	case stdx509.ECDSAWithSHA1, stdx509.ECDSAWithSHA256, stdx509.ECDSAWithSHA384, stdx509.ECDSAWithSHA512:
		h := sigHash[alg].New()
		h.Write(tbs)
		if sig, err = ecdsa.SignASN1(rnd, fx.EC(issKey), h.Sum(nil)); err != nil {
			return nil, err
		}
	default:
		return nil, fmt.Errorf("no hand signer for %v", alg)
	}
	sigBits, err := stdasn1.Marshal(stdasn1.BitString{Bytes: sig, BitLength: 8 * len(sig)})
	if err != nil {
		return nil, err
	}
	out, err := derSeq(bytes.Join([][]byte{tbs, outer.Alg.FullBytes, sigBits}, nil))
	if err != nil {
		return nil, err
	}
	return out, nil
}
