package main

// The oracle. Everything here reads certificates through the Go standard
// library (crypto/x509 parse of the DER bytes, crypto/x509 signature check) and
// transcribes the property statement; nothing calls back into zcrypto.

import (
	"bytes"
	stdx509 "crypto/x509"
	"strings"
	"sync"
	"time"
)

var oidSAN = []int{2, 5, 29, 17}

// ---- links -------------------------------------------------------------------

var sigCache sync.Map // uint64(child id)<<32|parent id -> bool

// sigOK: does parent's public key verify child's signature, per crypto/x509.
func sigOK(child, parent *gcert) bool {
	k := uint64(child.id)<<32 | uint64(parent.id)
	if v, ok := sigCache.Load(k); ok {
		return v.(bool)
	}
	err := parent.std.CheckSignature(child.std.SignatureAlgorithm, child.std.RawTBSCertificate, child.std.Signature)
	sigCache.Store(k, err == nil)
	return err == nil
}

func nameLinks(child, parent *gcert) bool {
	return bytes.Equal(child.std.RawIssuer, parent.std.RawSubject)
}

func isCA(c *gcert) bool { return c.std.BasicConstraintsValid && c.std.IsCA }

// pathLimit returns (limit, true) when the certificate carries a pathLenConstraint.
func pathLimit(c *gcert) (int, bool) {
	if !c.std.BasicConstraintsValid || !c.std.IsCA {
		return 0, false
	}
	if c.std.MaxPathLen > 0 || (c.std.MaxPathLen == 0 && c.std.MaxPathLenZero) {
		return c.std.MaxPathLen, true
	}
	return 0, false
}

func selfIssued(c *gcert) bool { return bytes.Equal(c.std.RawIssuer, c.std.RawSubject) }

// ---- extended key usage --------------------------------------------------------

func hasEKUList(c *gcert) bool {
	return len(c.std.ExtKeyUsage) > 0 || len(c.std.UnknownExtKeyUsage) > 0
}

// permits: does the certificate's EKU list allow the requested usage. A
// certificate without the extension allows everything, anyExtendedKeyUsage
// allows everything, and (zcrypto's documented special case) the two
// server-gated-crypto usages count as serverAuth.
func permits(c *gcert, usage string) bool {
	if !hasEKUList(c) {
		return true
	}
	for _, u := range c.std.ExtKeyUsage {
		switch {
		case u == stdx509.ExtKeyUsageAny:
			return true
		case usage == "server" && (u == stdx509.ExtKeyUsageServerAuth || u == stdx509.ExtKeyUsageNetscapeServerGatedCrypto || u == stdx509.ExtKeyUsageMicrosoftServerGatedCrypto):
			return true
		case usage == "client" && u == stdx509.ExtKeyUsageClientAuth:
			return true
		}
	}
	return false
}

func requested(sym []string) []string {
	if len(sym) == 0 {
		return []string{"server"} // "An empty list means ExtKeyUsageServerAuth"
	}
	return sym
}

// ekuLiberal: every certificate with an EKU list permits at least one of the requested usages.
// ekuStrict: one requested usage is permitted by every certificate (nesting).
func ekuJudge(chain []*gcert, sym []string) (liberal, strict bool) {
	req := requested(sym)
	for _, r := range req {
		if r == "any" {
			return true, true
		}
	}
	liberal = true
	for _, c := range chain {
		one := false
		for _, r := range req {
			if permits(c, r) {
				one = true
			}
		}
		if !one {
			liberal = false
		}
	}
	for _, r := range req {
		all := true
		for _, c := range chain {
			if !permits(c, r) {
				all = false
			}
		}
		if all {
			strict = true
		}
	}
	return
}

// ---- dates -----------------------------------------------------------------------

const (
	clCurrent = 1 << iota
	clExpired
	clNever
)

var className = map[int]string{clCurrent: "current", clExpired: "expired-or-not-yet-valid", clNever: "never-valid"}

// accepted classes of a chain at instant now, and whether now is a boundary instant.
func dateClasses(chain []*gcert, now time.Time) (accept int, boundary bool) {
	lo, hi := chain[0].std.NotBefore, chain[0].std.NotAfter
	for _, c := range chain[1:] {
		if c.std.NotBefore.After(lo) {
			lo = c.std.NotBefore
		}
		if c.std.NotAfter.Before(hi) {
			hi = c.std.NotAfter
		}
	}
	switch {
	case lo.After(hi):
		return clNever, false
	case lo.Equal(hi):
		// the common window is one instant: "empty" or not is a matter of reading
		if now.Equal(lo) {
			return clNever | clCurrent | clExpired, true
		}
		return clNever | clExpired, true
	case now.Before(lo) || now.After(hi):
		return clExpired, false
	case now.Equal(lo) || now.Equal(hi):
		return clCurrent | clExpired, true
	}
	return clCurrent, false
}

// ---- host names ---------------------------------------------------------------------

func refHostMatch(c *gcert, host string) bool {
	h := strings.ToLower(strings.TrimSuffix(host, "."))
	hasSAN := false
	for _, e := range c.std.Extensions {
		if e.Id.Equal(oidSAN) {
			hasSAN = true
		}
	}
	pats := c.std.DNSNames
	if !hasSAN {
		pats = []string{c.std.Subject.CommonName}
	}
	hl := strings.Split(h, ".")
	for _, p := range pats {
		pl := strings.Split(strings.ToLower(strings.TrimSuffix(p, ".")), ".")
		if p == "" || h == "" || len(pl) != len(hl) {
			continue
		}
		ok := true
		for i := range pl {
			if i == 0 && pl[i] == "*" {
				continue
			}
			if pl[i] != hl[i] {
				ok = false
			}
		}
		if ok {
			return true
		}
	}
	return false
}

// ---- soundness of one returned chain --------------------------------------------------

type flaw struct{ class, detail string }

// chainFlaws lists every clause of the statement that the chain breaks.
// roots: the certificates supplied as VerifyOptions.Roots.
func chainFlaws(chain []*gcert, leaf *gcert, roots []*wcert, ku []string) []flaw {
	var out []flaw
	if len(chain) == 0 {
		return []flaw{{"empty chain returned", ""}}
	}
	if !bytes.Equal(chain[0].der, leaf.der) {
		out = append(out, flaw{"chain does not start at the verified certificate", ""})
	}
	inRoots := false
	for _, r := range roots {
		if bytes.Equal(r.g.der, chain[len(chain)-1].der) {
			inRoots = true
		}
	}
	if !inRoots {
		out = append(out, flaw{"chain does not end at a certificate in Roots", ""})
	}
	for i := 0; i+1 < len(chain); i++ {
		if !nameLinks(chain[i], chain[i+1]) {
			out = append(out, flaw{"link without issuer-name match", "position " + itoa(i)})
		}
		if !sigOK(chain[i], chain[i+1]) {
			out = append(out, flaw{"link whose signature crypto/x509 rejects", "position " + itoa(i)})
		}
	}
	for i := 1; i+1 < len(chain); i++ {
		c := chain[i]
		if !isCA(c) {
			out = append(out, flaw{"intermediate is not a CA certificate", "position " + itoa(i)})
			continue
		}
		if lim, ok := pathLimit(c); ok {
			// RFC 5280 6.1.4(l): self-issued certificates do not count. The statement does not say, so
			// the chain is only wrong when even the smaller count exceeds the limit.
			below := 0
			for _, d := range chain[1:i] {
				if !selfIssued(d) {
					below++
				}
			}
			if below > lim {
				out = append(out, flaw{"intermediate used beyond its path-length limit", "position " + itoa(i)})
			}
		}
	}
	for i := range chain {
		for j := i + 1; j < len(chain); j++ {
			if bytes.Equal(chain[i].der, chain[j].der) {
				out = append(out, flaw{"certificate repeated in chain", "positions " + itoa(i) + "," + itoa(j)})
			}
		}
	}
	if lib, _ := ekuJudge(chain, ku); !lib {
		out = append(out, flaw{"requested extended key usage not permitted by some certificate of the chain", ""})
	}
	return out
}

func itoa(i int) string {
	if i < 10 {
		return string(rune('0' + i))
	}
	return itoa(i/10) + string(rune('0'+i%10))
}

// ---- reference enumeration (completeness / non-vacuity oracle, see checker.complete) -------------

// refChains enumerates every chain leaf -> ... -> root over the supplied pools that satisfies the
// statement under its strictest reading (every intermediate counts for path length, strict EKU nesting).
func refChains(p *pki, ku []string) [][]*gcert {
	var out [][]*gcert
	leaf := p.leaf.g
	inChain := func(ch []*gcert, c *gcert) bool {
		for _, x := range ch {
			if bytes.Equal(x.der, c.der) {
				return true
			}
		}
		return false
	}
	emit := func(ch []*gcert) {
		if _, strict := ekuJudge(ch, ku); strict {
			out = append(out, append([]*gcert(nil), ch...))
		}
	}
	for _, r := range p.roots {
		if bytes.Equal(r.g.der, leaf.der) {
			emit([]*gcert{leaf})
			break
		}
	}
	var rec func(ch []*gcert)
	rec = func(ch []*gcert) {
		tip := ch[len(ch)-1]
		seenRoot := map[int]bool{}
		for _, r := range p.roots {
			if seenRoot[r.g.id] || inChain(ch, r.g) || !nameLinks(tip, r.g) || !sigOK(tip, r.g) {
				continue
			}
			seenRoot[r.g.id] = true
			emit(append(ch, r.g))
		}
		seenInt := map[int]bool{}
		for _, x := range p.inters {
			if seenInt[x.g.id] || inChain(ch, x.g) || !nameLinks(tip, x.g) || !sigOK(tip, x.g) || !isCA(x.g) {
				continue
			}
			if lim, ok := pathLimit(x.g); ok && len(ch)-1 > lim {
				continue
			}
			seenInt[x.g.id] = true
			if len(ch) < 12 {
				rec(append(ch[:len(ch):len(ch)], x.g))
			}
		}
	}
	rec([]*gcert{leaf})
	return out
}

func chainID(ch []*gcert) string {
	var b strings.Builder
	for _, c := range ch {
		b.WriteString(itoa(c.id))
		b.WriteByte('.')
	}
	return b.String()
}

// reasonOther / reasonRejoin: the two classes of miss that no per-chain rule of the search explains.
const (
	reasonOther  = "other: no documented pruning applies"
	reasonRejoin = "an intermediate of the chain can be arrived at from the leaf along another prefix (the per-certificate memo of buildChains answers with the first arrival's chains)"
)

// rejoined: some intermediate ch[i] can also be arrived at, from the leaf, along a simple path through the
// Intermediates pool that differs from ch[:i]. A link is "the parent's key verifies the child's signature"
// (necessary for every arrival however candidates are selected), so this over-approximates the arrivals:
// it can only make the completeness oracle more lenient, never stricter.
func rejoined(p *pki, ch []*gcert) bool {
	var uniq []*gcert
	for _, x := range p.inters {
		dup := false
		for _, y := range uniq {
			if y.id == x.g.id {
				dup = true
			}
		}
		if !dup {
			uniq = append(uniq, x.g)
		}
	}
	samePrefix := func(path []*gcert, i int) bool {
		if len(path) != i {
			return false
		}
		for j := range path {
			if path[j].id != ch[j].id {
				return false
			}
		}
		return true
	}
	found := false
	var rec func(path []*gcert)
	rec = func(path []*gcert) {
		if found {
			return
		}
		tip := path[len(path)-1]
		for i := 1; i+1 < len(ch); i++ {
			in := false
			for _, x := range path {
				if x.id == ch[i].id {
					in = true
				}
			}
			if !in && sigOK(tip, ch[i]) && !samePrefix(path, i) {
				found = true
				return
			}
		}
		if len(path) > 12 {
			return
		}
		for _, x := range uniq {
			in := false
			for _, y := range path {
				if y.id == x.id {
					in = true
				}
			}
			if !in && sigOK(tip, x) {
				rec(append(path[:len(path):len(path)], x))
			}
		}
	}
	rec([]*gcert{p.leaf.g})
	return found
}

// missReason names the documented rule of the search that explains why a reference-valid chain is absent from
// Verify's answer; reasonOther when none does.
func missReason(p *pki, ch []*gcert) string {
	for _, r := range p.roots {
		if bytes.Equal(r.g.der, p.leaf.g.der) && len(ch) > 1 {
			return "leaf is in Roots: only the one-certificate chain is returned"
		}
	}
	for i := range ch {
		for j := i + 1; j < len(ch); j++ {
			if bytes.Equal(ch[i].std.RawSubject, ch[j].std.RawSubject) && bytes.Equal(ch[i].std.RawSubjectPublicKeyInfo, ch[j].std.RawSubjectPublicKeyInfo) {
				return "chain repeats a subject+key pair (refused by design)"
			}
		}
	}
	last := ch[len(ch)-1]
	if len(ch) > 1 {
		// RFC 5280 4.2.1.9 (quoted in CheckSignatureFrom) speaks of VERSION 3 certificates: a v1 / v2 certificate in
		// Roots is a trust anchor like any other (crypto/x509 and zcrypto both build chains to it), so its
		// missing CA flag explains nothing
		if !isCA(last) && last.std.Version == 3 {
			return "root is not a CA certificate"
		}
		if lim, ok := pathLimit(last); ok && len(ch)-2 > lim {
			return "root path-length limit"
		}
	}
	for i := 1; i+1 < len(ch); i++ {
		for _, r := range p.roots {
			if bytes.Equal(r.g.der, ch[i].der) {
				return "an intermediate of the chain is itself in Roots (skipped as intermediate)"
			}
		}
	}
	for i := 1; i < len(ch); i++ {
		// the statement is silent on key usage; CheckSignatureFrom documents (and crypto/x509 shares) the rule
		// that an issuer with a keyUsage extension needs keyCertSign: both behaviours are accepted
		if ku := ch[i].std.KeyUsage; ku != 0 && ku&stdx509.KeyUsageCertSign == 0 {
			return "an issuer's keyUsage extension lacks keyCertSign (refused by CheckSignatureFrom; the statement is silent on key usage)"
		}
	}
	for i := 0; i+1 < len(ch); i++ {
		ak := ch[i].std.AuthorityKeyId
		if len(ak) > 0 && !bytes.Equal(ak, ch[i+1].std.SubjectKeyId) {
			return "AKID selects other candidates than the issuer-name match"
		}
	}
	if rejoined(p, ch) {
		return reasonRejoin
	}
	return reasonOther
}
