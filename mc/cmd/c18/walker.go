package main

// Independent DER walker (X.690): definite minimal lengths, minimal tag
// numbers, content rules of the universal types Marshal can emit, SET OF order.
// Returns "" or a short reason class.

import (
	"bytes"
	"reflect"
	"unicode/utf8"
)

type walkCfg struct {
	lenient      bool // structure only (used for RawValue payloads chosen by the harness)
	single       bool // exactly one element expected
	allowEmptyBo bool // asn1.Flag is encoded as an empty BOOLEAN by design
}

func walkDER(b []byte, cfg walkCfg) string {
	n := 0
	for off := 0; off < len(b); {
		end, why := walkOne(b, off, cfg)
		if why != "" {
			return why
		}
		off = end
		n++
	}
	if cfg.single && n != 1 {
		return "not exactly one element"
	}
	return ""
}

func walkOne(b []byte, off int, cfg walkCfg) (end int, why string) {
	if off >= len(b) {
		return 0, "truncated identifier"
	}
	id := b[off]
	off++
	class := int(id >> 6)
	constructed := id&0x20 != 0
	tag := int(id & 0x1f)
	if tag == 0x1f {
		tag = 0
		first := true
		for {
			if off >= len(b) {
				return 0, "truncated high tag number"
			}
			c := b[off]
			off++
			if first && c == 0x80 {
				return 0, "non-minimal high tag number"
			}
			first = false
			tag = tag<<7 | int(c&0x7f)
			if tag > 1<<28 {
				return 0, "tag number too large"
			}
			if c&0x80 == 0 {
				break
			}
		}
		if tag < 31 {
			return 0, "high tag form used for tag < 31"
		}
	}
	if off >= len(b) {
		return 0, "truncated length"
	}
	l := int(b[off])
	off++
	if l == 0x80 {
		return 0, "indefinite length"
	}
	if l > 0x80 {
		nb := l & 0x7f
		if nb > 4 || off+nb > len(b) {
			return 0, "bad long-form length"
		}
		if b[off] == 0 {
			return 0, "length with leading zero octet"
		}
		l = 0
		for i := 0; i < nb; i++ {
			l = l<<8 | int(b[off+i])
		}
		off += nb
		if l < 128 {
			return 0, "long-form length for a length < 128"
		}
	}
	if off+l > len(b) || off+l < off {
		return 0, "content runs past the end"
	}
	content := b[off : off+l]
	end = off + l
	if constructed {
		var prev []byte
		for o := 0; o < len(content); {
			e, why := walkOne(content, o, cfg)
			if why != "" {
				return 0, why
			}
			if class == 0 && tag == 17 && !cfg.lenient {
				cur := content[o:e]
				if prev != nil && bytes.Compare(prev, cur) > 0 {
					return 0, "SET OF elements not in ascending order"
				}
				prev = cur
			}
			o = e
		}
	}
	if class != 0 || cfg.lenient {
		return end, ""
	}
	// universal types
	switch tag {
	case 16, 17:
		if !constructed {
			return 0, "primitive SEQUENCE/SET"
		}
		return end, ""
	case 0:
		return end, "" // only reachable through a harness-chosen RawValue
	}
	if constructed {
		return 0, "constructed encoding of a primitive universal type"
	}
	switch tag {
	case 1:
		if len(content) == 0 && cfg.allowEmptyBo {
			return end, ""
		}
		if len(content) != 1 || (content[0] != 0 && content[0] != 0xff) {
			return 0, "BOOLEAN not 00/ff"
		}
	case 2, 10:
		if len(content) == 0 {
			return 0, "empty INTEGER"
		}
		if len(content) > 1 && (content[0] == 0 && content[1]&0x80 == 0 || content[0] == 0xff && content[1]&0x80 != 0) {
			return 0, "INTEGER not minimal"
		}
	case 3:
		if len(content) == 0 || content[0] > 7 || (len(content) == 1 && content[0] != 0) {
			return 0, "BIT STRING bad unused-bits octet"
		}
		if len(content) > 1 && content[len(content)-1]&(1<<content[0]-1) != 0 {
			return 0, "BIT STRING unused bits not zero"
		}
	case 5:
		if len(content) != 0 {
			return 0, "NULL with content"
		}
	case 6:
		if len(content) == 0 || content[len(content)-1]&0x80 != 0 {
			return 0, "OBJECT IDENTIFIER truncated"
		}
		start := true
		for _, c := range content {
			if start && c == 0x80 {
				return 0, "OBJECT IDENTIFIER arc not minimal"
			}
			start = c&0x80 == 0
		}
	case 12:
		if !utf8.Valid(content) {
			return 0, "UTF8String not valid UTF-8"
		}
	case 18:
		if !isNumericStr(string(content)) {
			return 0, "NumericString with invalid character"
		}
	case 19:
		for _, c := range content {
			// '*' is deliberately allowed by the package when a
			// PrintableString is requested explicitly (documented in the source).
			if c != '*' && !x680Printable(string([]byte{c})) {
				return 0, "PrintableString with invalid character"
			}
		}
	case 22:
		if !isASCII(string(content)) {
			return 0, "IA5String with invalid character"
		}
	case 23:
		if !timeSyntax(content, 2) {
			return 0, "UTCTime syntax"
		}
	case 24:
		if !timeSyntax(content, 4) {
			return 0, "GeneralizedTime syntax"
		}
	}
	return end, ""
}

// timeSyntax: Y..YMMDDhhmmss followed by Z or +hhmm/-hhmm (the package emits
// offsets for non-UTC locations; only UTC values are inside the domain).
func timeSyntax(c []byte, yd int) bool {
	n := yd + 10
	if len(c) != n+1 && len(c) != n+5 {
		return false
	}
	for i := 0; i < n; i++ {
		if c[i] < '0' || c[i] > '9' {
			return false
		}
	}
	num := func(i int) int { return int(c[i]-'0')*10 + int(c[i+1]-'0') }
	mo, d, h, mi, s := num(yd), num(yd+2), num(yd+4), num(yd+6), num(yd+8)
	if mo < 1 || mo > 12 || d < 1 || d > 31 || h > 23 || mi > 59 || s > 59 {
		return false
	}
	if len(c) == n+1 {
		return c[n] == 'Z'
	}
	if c[n] != '+' && c[n] != '-' {
		return false
	}
	for i := n + 1; i < n+5; i++ {
		if c[i] < '0' || c[i] > '9' {
			return false
		}
	}
	return true
}

// ---- DEFAULT components (X.690 §11.5) --------------------------------------

type tlv struct {
	id      ctag
	content []byte
}

// splitTLV splits well-formed (already walked) DER into its elements.
func splitTLV(b []byte) (out []tlv) {
	// Also called on byte strings that are only PRESUMED to hold elements (defaultEncoded on the output for a
	// value outside the domain, or of an implementation that mis-tags): anything malformed ends the list.
	for off := 0; off < len(b); {
		id := b[off]
		off++
		tag := int(id & 0x1f)
		if tag == 0x1f {
			tag = 0
			for {
				if off >= len(b) {
					return
				}
				c := b[off]
				off++
				tag = tag<<7 | int(c&0x7f)
				if c&0x80 == 0 {
					break
				}
			}
		}
		if off >= len(b) {
			return
		}
		l := int(b[off])
		off++
		if l > 0x80 {
			nb := l & 0x7f
			if nb > 4 || off+nb > len(b) {
				return
			}
			l = 0
			for i := 0; i < nb; i++ {
				l = l<<8 | int(b[off+i])
			}
			off += nb
		} else if l == 0x80 {
			return
		}
		if l < 0 || off+l > len(b) {
			return
		}
		out = append(out, tlv{ctag{int(id >> 6), tag}, b[off : off+l]})
		off += l
	}
	return
}

// defaultEncoded reports whether some component that carries a DEFAULT
// (`optional,default:N`) and whose value equals N is nevertheless present in the
// encoding ("the encoding of a set value or sequence value shall not include an
// encoding for any component value which is equal to its default value").
// content = the content octets of the SEQUENCE that encodes struct value v of
// type t. Presence is decided by a small independent matcher, which is sound
// because ambiguous types are excluded by the domain predicate.
func defaultEncoded(t *tnode, v reflect.Value, content []byte) bool {
	kids := splitTLV(content)
	j := 0
	for i, f := range t.fields {
		if j >= len(kids) {
			break
		}
		set, any := tagSet(f.t, f.opt)
		present := any
		for _, c := range set {
			present = present || c == kids[j].id
		}
		if !present {
			continue
		}
		kid := kids[j]
		j++
		if f.opt.def != nil && v.Field(i).Int() == *f.opt.def {
			return true
		}
		inner := kid.content
		if f.opt.explicit {
			sub := splitTLV(inner)
			if len(sub) != 1 {
				continue
			}
			inner = sub[0].content
		}
		switch {
		case f.t.fields != nil:
			if defaultEncoded(f.t, v.Field(i), inner) {
				return true
			}
		case f.t.elem != nil && f.t.elem.fields != nil && !f.opt.set:
			el := splitTLV(inner)
			if len(el) == v.Field(i).Len() {
				for k := range el {
					if defaultEncoded(f.t.elem, v.Field(i).Index(k), el[k].content) {
						return true
					}
				}
			}
		}
	}
	return false
}
