package main

// Typed DER walker: the harness's OWN reading of (Go type, field options, value)
// -> the element that must be on the wire (X.690 + the package documentation),
// compared with what Marshal produced. Nothing here calls zcrypto: the field
// options are parsed by parseOpt (domain.go), the Go-type -> universal-type map
// is the table of the Unmarshal documentation, the content octets are encoded by
// the small encoders below. This is what sees SYMMETRIC defects of the code that
// encoder and decoder share (common.go: parseFieldParameters, getUniversalType):
// a wrong class, a tag number off by one, a wrong string tag round-trip
// perfectly but are not the encoding of the value under the declared type.
//
// Where the documentation leaves a choice, every alternative is accepted:
//   - a Go string without a string-type option may be any character string type
//     whose repertoire holds the value (Marshal is only documented to pick one),
//   - time.Time without option: UTCTime (1950..2049 only) or GeneralizedTime,
//   - an OPTIONAL field equal to its zero value (up to the statement's
//     equalities) and an omitempty empty slice may be absent or present.

import (
	"bytes"
	"fmt"
	"math/big"
	"reflect"
	"strings"
	"sync"
	"time"

	zasn1 "github.com/zmap/zcrypto/encoding/asn1"
)

type elem struct {
	class, tag  int
	constructed bool
	content     []byte
	full        []byte
}

// splitElems splits well-formed (already walked) DER into its elements.
func splitElems(b []byte) (out []elem) {
	for off := 0; off < len(b); {
		start := off
		id := b[off]
		off++
		tag := int(id & 0x1f)
		if tag == 0x1f {
			tag = 0
			for {
				c := b[off]
				off++
				tag = tag<<7 | int(c&0x7f)
				if c&0x80 == 0 {
					break
				}
			}
		}
		l := int(b[off])
		off++
		if l > 0x80 {
			nb := l & 0x7f
			l = 0
			for i := 0; i < nb; i++ {
				l = l<<8 | int(b[off+i])
			}
			off += nb
		}
		out = append(out, elem{int(id >> 6), tag, id&0x20 != 0, b[off : off+l], b[start : off+l]})
		off += l
	}
	return
}

var className = [4]string{"UNIVERSAL", "APPLICATION", "CONTEXT", "PRIVATE"}

func idString(class int, tag string, constructed bool) string {
	s := "<" + className[class&3] + " " + tag + ">"
	if constructed {
		return s + " constructed"
	}
	return s + " primitive"
}

func (e elem) String() string {
	if e.class == 0 && univName[e.tag] != "" {
		return univName[e.tag]
	}
	return idString(e.class, "n", e.constructed)
}

var (
	zBitString = reflect.TypeOf(zasn1.BitString{})
	zOID       = reflect.TypeOf(zasn1.ObjectIdentifier{})
	zEnum      = reflect.TypeOf(zasn1.Enumerated(0))
	zFlag      = reflect.TypeOf(zasn1.Flag(false))
	zRaw       = reflect.TypeOf(zasn1.RawValue{})
)

// alt: one admissible universal encoding of a Go value.
type alt struct {
	tag         int
	constructed bool
	content     []byte // nil for SEQUENCE/SET (checked recursively)
	composite   bool
}

func twos(n int64) []byte {
	b := big.NewInt(n)
	return twosBig(b)
}

// twosBig: minimal two's complement octets of an INTEGER (X.690 §8.3).
func twosBig(n *big.Int) []byte {
	if n.Sign() >= 0 {
		b := n.Bytes()
		if len(b) == 0 || b[0]&0x80 != 0 {
			b = append([]byte{0}, b...)
		}
		return b
	}
	// -n: find the smallest k with -2^(8k-1) <= n
	for k := 1; ; k++ {
		lim := new(big.Int).Lsh(big.NewInt(1), uint(8*k-1))
		if new(big.Int).Neg(lim).Cmp(n) <= 0 {
			v := new(big.Int).Add(new(big.Int).Lsh(big.NewInt(1), uint(8*k)), n)
			b := v.Bytes()
			for len(b) < k {
				b = append([]byte{0}, b...)
			}
			return b
		}
	}
}

func base128(n int64) []byte {
	var out []byte
	for {
		out = append([]byte{byte(n & 0x7f)}, out...)
		n >>= 7
		if n == 0 {
			break
		}
	}
	for i := 0; i < len(out)-1; i++ {
		out[i] |= 0x80
	}
	return out
}

// alternatives: the admissible universal encodings of v under options o
// (only string-type / time-type / set matter here). ok=false: the harness has no
// expectation (not reached for values inside the domain).
func alternatives(v reflect.Value, o *opt) (alts []alt, ok bool) {
	t := v.Type()
	switch t {
	case zBitString:
		bs := v.Interface().(zasn1.BitString)
		return []alt{{tag: 3, content: append([]byte{byte((8 - bs.BitLength%8) % 8)}, bs.Bytes...)}}, true
	case zOID:
		oid := v.Interface().(zasn1.ObjectIdentifier)
		if len(oid) < 2 {
			return nil, false
		}
		c := base128(int64(oid[0])*40 + int64(oid[1]))
		for _, a := range oid[2:] {
			c = append(c, base128(int64(a))...)
		}
		return []alt{{tag: 6, content: c}}, true
	case zEnum:
		return []alt{{tag: 10, content: twos(v.Int())}}, true
	case zFlag:
		return []alt{{tag: 1, content: []byte{}}}, true // "set to true if present": an empty element
	case timeT:
		tm := v.Interface().(time.Time).UTC()
		y := tm.Year()
		if o.timeType != 24 && y >= 1950 && y < 2050 {
			alts = append(alts, alt{tag: 23, content: []byte(tm.Format("060102150405Z"))})
		}
		if o.timeType != 23 || !(y >= 1950 && y < 2050) {
			alts = append(alts, alt{tag: 24, content: []byte(fmt.Sprintf("%04d", y) + tm.Format("0102150405Z"))})
		}
		return alts, true
	case bigIntT:
		if v.IsNil() {
			return nil, false
		}
		return []alt{{tag: 2, content: twosBig(v.Interface().(*big.Int))}}, true
	}
	switch t.Kind() {
	case reflect.Bool:
		if v.Bool() {
			return []alt{{tag: 1, content: []byte{0xff}}}, true
		}
		return []alt{{tag: 1, content: []byte{0}}}, true
	case reflect.Int, reflect.Int8, reflect.Int16, reflect.Int32, reflect.Int64:
		return []alt{{tag: 2, content: twos(v.Int())}}, true
	case reflect.String:
		s := v.String()
		c := []byte(s)
		switch o.strType {
		case 0:
			// Marshal's rule for a string without a string-type parameter (makeField, the same in Go's
			// encoding/asn1): PrintableString when every character is in the X.680 PrintableString set ('*' and
			// '&' are NOT, they are tolerated by the parser only), UTF8String otherwise. x680Printable works on
			// bytes: every byte of a non-ASCII rune is >= 0x80 and outside the set.
			if x680Printable(s) {
				alts = append(alts, alt{tag: 19, content: c})
			} else {
				alts = append(alts, alt{tag: 12, content: c})
			}
		default:
			alts = append(alts, alt{tag: o.strType, content: c})
		}
		return alts, true
	case reflect.Slice:
		if t.Elem().Kind() == reflect.Uint8 {
			return []alt{{tag: 4, content: append([]byte{}, v.Bytes()...)}}, true
		}
		if o.set || strings.HasSuffix(t.Name(), "SET") {
			return []alt{{tag: 17, constructed: true, composite: true}}, true
		}
		return []alt{{tag: 16, constructed: true, composite: true}}, true
	case reflect.Struct:
		if o.set {
			return []alt{{tag: 17, constructed: true, composite: true}}, true
		}
		return []alt{{tag: 16, constructed: true, composite: true}}, true
	}
	return nil, false
}

var fieldOptCache sync.Map // reflect.StructTag -> *opt

func fieldOpt(tag reflect.StructTag) *opt {
	if v, ok := fieldOptCache.Load(tag); ok {
		return v.(*opt)
	}
	o := parseOpt(tag.Get("asn1"))
	fieldOptCache.Store(tag, o)
	return o
}

// checkValue: is e the DER element of Go value v under field options o?
// Returns "" or a failure class (stable: names the kind of disagreement, the
// expected and found identifier classes).
//
// idOK reports whether the outermost identifier octets agreed (when they did
// not and the component may be absent, the element belongs to a later component).
func checkValue(v reflect.Value, o *opt, e elem) (why string, idOK bool) {
	if v.Type() == zRaw {
		rv := v.Interface().(zasn1.RawValue)
		want := rv.FullBytes
		if len(want) == 0 {
			want = rawTLV(rv.Class, rv.Tag, rv.IsCompound, rv.Bytes)
		}
		if !bytes.Equal(want, e.full) {
			return "RawValue: the element on the wire is not the raw element", false
		}
		return "", true
	}
	alts, ok := alternatives(v, o)
	if !ok {
		return "the value has no encoding (nil)", false
	}
	if o.hasTag && o.explicit {
		if e.class != o.class || e.tag != o.tag || !e.constructed {
			return "identifier: expected EXPLICIT " + idString(o.class, "N", true) + ", found " + idString(e.class, relTag(e.tag, o.tag), e.constructed), false
		}
		kids := splitElems(e.content)
		if len(kids) != 1 {
			return "EXPLICIT tag does not wrap exactly one element", true
		}
		e = kids[0]
		if e.class != 0 {
			return "inside EXPLICIT tag: identifier: expected " + altNames(alts) + ", found " + idString(e.class, "n", e.constructed), true
		}
		why, _ = matchAlts(v, e, alts, false, "inside EXPLICIT tag: ")
		return why, true
	}
	if o.hasTag {
		if e.class != o.class || e.tag != o.tag || e.constructed != alts[0].constructed {
			return "identifier: expected IMPLICIT " + idString(o.class, "N", alts[0].constructed) + ", found " + idString(e.class, relTag(e.tag, o.tag), e.constructed), false
		}
		why, _ = matchAlts(v, e, alts, true, "under IMPLICIT tag: ")
		return why, true
	}
	if e.class != 0 {
		return "identifier: expected " + altNames(alts) + ", found " + idString(e.class, "n", e.constructed), false
	}
	return matchAlts(v, e, alts, false, "")
}

// relTag renders a found tag number relative to the expected one N, so that one
// defect yields one signature whatever the number is.
func relTag(found, expected int) string {
	if found == expected {
		return "N"
	}
	if found == 0 {
		return "0" // the number was lost altogether, whatever it was
	}
	return fmt.Sprintf("N%+d", found-expected)
}

var univName = map[int]string{1: "BOOLEAN", 2: "INTEGER", 3: "BIT STRING", 4: "OCTET STRING", 6: "OBJECT IDENTIFIER",
	10: "ENUMERATED", 12: "UTF8String", 16: "SEQUENCE", 17: "SET", 18: "NumericString", 19: "PrintableString",
	22: "IA5String", 23: "UTCTime", 24: "GeneralizedTime"}

func altNames(alts []alt) string {
	var p []string
	for _, a := range alts {
		p = append(p, univName[a.tag])
	}
	return strings.Join(p, "|")
}

func matchAlts(v reflect.Value, e elem, alts []alt, implicit bool, where string) (string, bool) {
	for _, a := range alts {
		if !implicit && (e.tag != a.tag || e.constructed != a.constructed) {
			continue
		}
		if a.composite {
			if v.Kind() == reflect.Struct {
				return checkStruct(v, e.content), true
			}
			return checkSlice(v, a.tag == 17, e.content), true
		}
		if bytes.Equal(a.content, e.content) {
			return "", true
		}
		if !implicit {
			return where + "content octets of " + univName[a.tag] + " are not the encoding of the value", true
		}
	}
	if implicit {
		return where + "content octets are not the encoding of the value as " + altNames(alts), true
	}
	found := univName[e.tag]
	if found == "" {
		found = fmt.Sprintf("<UNIVERSAL %d>", e.tag)
	}
	if e.constructed != alts[0].constructed {
		found += map[bool]string{true: " constructed", false: " primitive"}[e.constructed]
	}
	return where + "identifier: expected " + altNames(alts) + ", found " + found, false
}

// mayBeAbsent: may the encoding of a SEQUENCE omit this component?
func mayBeAbsent(v reflect.Value, o *opt) bool {
	if o.omitempty && v.Kind() == reflect.Slice && v.Len() == 0 {
		return true
	}
	if !o.optional {
		return false
	}
	if o.def != nil {
		return v.Int() == *o.def
	}
	if v.IsZero() {
		return true
	}
	return canon(v, o.set) == canon(reflect.Zero(v.Type()), o.set)
}

// checkStruct matches the elements of a SEQUENCE body against the components
// of the struct type, in order. A component that may be absent is tried present
// first, then absent (omitempty is a Marshal-only option, so `[]byte omitempty`
// followed by `[]byte` is only decidable with the value in hand).
func checkStruct(v reflect.Value, content []byte) string {
	kids := splitElems(content)
	t := v.Type()
	n := t.NumField()
	var match func(i, j int) string
	match = func(i, j int) string {
		if i == n {
			if j != len(kids) {
				return "the SEQUENCE holds an element that is no component of the type: " + kids[j].String()
			}
			return ""
		}
		o := fieldOpt(t.Field(i).Tag)
		fv := v.Field(i)
		absentOK := mayBeAbsent(fv, o)
		whyPresent := ""
		if j < len(kids) {
			why, idOK := checkValue(fv, o, kids[j])
			if why == "" {
				rest := match(i+1, j+1)
				if rest == "" || !absentOK {
					return rest
				}
				whyPresent = rest
			} else {
				if !absentOK {
					return why
				}
				if idOK {
					whyPresent = why
				}
			}
		} else if !absentOK {
			return "a component that must be present is missing from the SEQUENCE"
		}
		rest := match(i+1, j)
		if rest == "" {
			return ""
		}
		if whyPresent != "" {
			return whyPresent
		}
		return rest
	}
	return match(0, 0)
}

func checkSlice(v reflect.Value, set bool, content []byte) string {
	kids := splitElems(content)
	if len(kids) != v.Len() {
		return "SEQUENCE OF/SET OF: number of elements differs from the length of the slice"
	}
	if !set {
		for i := range kids {
			if why, _ := checkValue(v.Index(i), emptyOpt, kids[i]); why != "" {
				return why
			}
		}
		return ""
	}
	// SET OF: a bijection between elements and values (order is checked by walkDER)
	used := make([]bool, len(kids))
	first := ""
outer:
	for i := 0; i < v.Len(); i++ {
		for k := range kids {
			if used[k] {
				continue
			}
			why, _ := checkValue(v.Index(i), emptyOpt, kids[k])
			if why == "" {
				used[k] = true
				continue outer
			}
			if first == "" {
				first = why
			}
		}
		return "SET OF: " + first
	}
	return ""
}

// typedWalk: b = Marshal's output for the struct value zv.
func typedWalk(zv reflect.Value, b []byte) string {
	top := splitElems(b)
	if len(top) != 1 {
		return "not exactly one element"
	}
	why, _ := checkValue(zv, emptyOpt, top[0])
	return why
}
