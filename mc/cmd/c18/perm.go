package main

// Option-token ORDER and tag-NUMBER sensitivity (second strengthening round).
//
// The field tag is a comma-separated SET of tokens; the package documentation gives the tokens no
// order. The type generator used to write every option set in one order only, so a parser whose
// result depends on the order (e.g. `tag:N,private` read differently from `private,tag:N`) was
// never asked. Here every option set of the alphabet is ALSO written in every other permutation
// of its tokens; the expectation (typed walker, parseOpt) does not depend on the order, so an
// order dependence of zcrypto's parser shows up as a wrong identifier or a changed value.
//
//   P1  struct{ F0 K `perm` } for every (kind, option set) of the domain, every permutation
//   P2  struct{ F0 K `perm`; F1 int } for K in {int, string} (an absent/mis-tagged component must not
//       swallow its successor)
//   P3  the options of the nested shapes (struct-in-struct, slice-of-struct), every permutation,
//       inner struct{ F0 int | string }
//   P4  two OPTIONAL members of the same kind distinguished ONLY by their tag number, for each
//       class (context, application, private) x {IMPLICIT, EXPLICIT} x number pairs
//       {(0,1),(1,0),(1,2),(3,0),(0,3)}: every permutation of either member's tokens; with the
//       earlier member absent and the later present a wrong tag number moves the value into the
//       other member (the round trip sees it, not only the typed walker).

import (
	"sort"
	"strconv"
	"strings"
)

func permutations(toks []string) [][]string {
	if len(toks) <= 1 {
		return [][]string{append([]string(nil), toks...)}
	}
	var out [][]string
	for i := range toks {
		rest := append(append([]string(nil), toks[:i]...), toks[i+1:]...)
		for _, p := range permutations(rest) {
			out = append(out, append([]string{toks[i]}, p...))
		}
	}
	return out
}

// permOpts: every order of the tokens of option string s other than s itself, parsed by the
// harness's own (order-independent) parseOpt and registered for replay.
func permOpts(s string) []*opt {
	toks := strings.Split(s, ",")
	if s == "" || len(toks) < 2 {
		return nil
	}
	var out []*opt
	for _, p := range permutations(toks) {
		ps := strings.Join(p, ",")
		if ps == s {
			continue
		}
		o := optCache[ps]
		if o == nil {
			o = parseOpt(ps)
			optCache[ps] = o
		}
		out = append(out, o)
	}
	return out
}

type pjob struct {
	name  string
	t     *tnode
	level int
}

// valuesOf: the complete value list of a type tree at an alphabet level (slices: nil, empty,
// every single element; structs: full product).
func valuesOf(t *tnode, level int) []vnode {
	switch {
	case t.leaf != nil:
		var out []vnode
		for _, ix := range alphabet(t.leaf, level) {
			out = append(out, vnode{Idx: ix})
		}
		return out
	case t.elem != nil:
		out := []vnode{{Nil: true}, {Kids: []vnode{}}}
		for _, e := range valuesOf(t.elem, level) {
			out = append(out, vnode{Kids: []vnode{e}})
		}
		return out
	}
	out := []vnode{{Kids: []vnode{}}}
	for _, f := range t.fields {
		fv := valuesOf(f.t, level)
		var next []vnode
		for _, pre := range out {
			for _, v := range fv {
				next = append(next, vnode{Kids: append(append([]vnode(nil), pre.Kids...), v)})
			}
		}
		out = next
	}
	return out
}

const (
	shapePerm1 = "permuted option order: 1-field"
	shapePerm2 = "permuted option order: 2-field (int successor)"
	shapePerm3 = "permuted option order: nested shapes"
	shapePerm4 = "two optionals distinguished by tag number only"
)

// twoOptStrings: the canonical option strings of the two members of a P4 type.
func twoOptString(class string, explicit bool, n int) string {
	toks := []string{"optional"}
	if explicit {
		toks = append(toks, "explicit")
	}
	if class != "" {
		toks = append(toks, class)
	}
	return strings.Join(append(toks, "tag:"+strconv.Itoa(n)), ",")
}

var twoOptPairs = [][2]int{{0, 1}, {1, 0}, {1, 2}, {3, 0}, {0, 3}}

// permJobs builds the additional types. Must run before the worker pool starts (optCache is written).
func permJobs(quick bool, outerStruct, outerSlice []string) (jobs []pjob, info map[string]any) {
	info = map[string]any{}
	intK, strK := kindByName["int"], kindByName["string"]
	intLeaf := tfield{emptyOpt, leafNode(intK)}
	nOrders := 0
	sets := 0
	for _, os := range optStrings {
		perms := permOpts(os)
		if len(perms) == 0 {
			continue
		}
		sets++
		nOrders += len(perms)
		for _, k := range kinds {
			if ok, _ := pairOK(leafNode(k), getOpt(os)); !ok {
				continue
			}
			for _, po := range perms {
				jobs = append(jobs, pjob{shapePerm1, structNode([]tfield{{po, leafNode(k)}}), 3})
				if k == intK || k == strK {
					jobs = append(jobs, pjob{shapePerm2, structNode([]tfield{{po, leafNode(k)}, intLeaf}), 1})
				}
			}
		}
	}
	info["option_sets_with_2+_tokens"] = sets
	info["additional_orders"] = nOrders
	for _, inner := range []*tnode{structNode([]tfield{{emptyOpt, leafNode(intK)}}), structNode([]tfield{{emptyOpt, leafNode(strK)}})} {
		for _, os := range outerStruct {
			for _, po := range permOpts(os) {
				if ok, _ := pairOK(inner, po); ok {
					jobs = append(jobs, pjob{shapePerm3, structNode([]tfield{{po, inner}}), 2}, pjob{shapePerm3, structNode([]tfield{{po, inner}, intLeaf}), 2})
				}
			}
		}
		for _, os := range outerSlice {
			for _, po := range permOpts(os) {
				sl := sliceNode(inner)
				if ok, _ := pairOK(sl, po); ok {
					jobs = append(jobs, pjob{shapePerm3, structNode([]tfield{{po, sl}}), 2})
				}
			}
		}
	}
	// P4
	p4Kinds := map[string]bool{"int": true, "string": true, "[]byte": true, "bool": true, "[]int": true, "S1": true, "time.Time": true, "Flag": true, "ObjectIdentifier": true}
	var usedKinds []string
	for _, k := range kinds {
		if quick && !p4Kinds[k.name] {
			continue
		}
		used := false
		for _, class := range []string{"", "application", "private"} {
			for _, explicit := range []bool{false, true} {
				for _, pr := range twoOptPairs {
					sa, sb := twoOptString(class, explicit, pr[0]), twoOptString(class, explicit, pr[1])
					oa, ob := parseOpt(sa), parseOpt(sb)
					if o := optCache[sa]; o != nil {
						oa = o
					} else {
						optCache[sa] = oa
					}
					if o := optCache[sb]; o != nil {
						ob = o
					} else {
						optCache[sb] = ob
					}
					if ok, _ := pairOK(leafNode(k), oa); !ok {
						continue
					}
					used = true
					jobs = append(jobs, pjob{shapePerm4, structNode([]tfield{{oa, leafNode(k)}, {ob, leafNode(k)}}), 1})
					for _, pa := range permOpts(sa) {
						jobs = append(jobs, pjob{shapePerm4, structNode([]tfield{{pa, leafNode(k)}, {ob, leafNode(k)}}), 1})
					}
					for _, pb := range permOpts(sb) {
						jobs = append(jobs, pjob{shapePerm4, structNode([]tfield{{oa, leafNode(k)}, {pb, leafNode(k)}}), 1})
					}
				}
			}
		}
		if used {
			usedKinds = append(usedKinds, k.name)
		}
	}
	sort.Strings(usedKinds)
	info["two_optionals_kinds"] = usedKinds
	info["two_optionals_tag_pairs"] = twoOptPairs
	return jobs, info
}

// earlierAbsentLaterPresent: the P4 situation in which a wrong tag number changes the decoded value.
func earlierAbsentLaterPresent(t *tnode, vn *vnode) bool {
	if len(t.fields) != 2 {
		return false
	}
	v := mkval(t, vn, flZ)
	return mayBeAbsent(v.Field(0), t.fields[0].opt) && !mayBeAbsent(v.Field(1), t.fields[1].opt)
}
