package main

// Type trees (run-time constructed Go types), value trees, canonical forms.

import (
	"encoding/hex"
	"fmt"
	"math/big"
	"reflect"
	"regexp"
	"sort"
	"strconv"
	"strings"
	"sync"
	"time"
)

type tnode struct {
	leaf   *kind
	fields []tfield // struct built with reflect.StructOf
	elem   *tnode   // slice built with reflect.SliceOf
	typ    [2]reflect.Type
	flag   bool // contains an asn1.Flag somewhere
}

type tfield struct {
	opt *opt
	t   *tnode
}

var leafNodes = map[*kind]*tnode{}

func initLeaves() {
	for _, k := range kinds {
		leafNodes[k] = &tnode{leaf: k, typ: k.typ, flag: k.cls == kFlag}
	}
}

func leafNode(k *kind) *tnode { return leafNodes[k] }

func structNode(fs []tfield) *tnode {
	t := &tnode{fields: fs}
	same := true
	for _, f := range fs {
		same = same && f.t.typ[flZ] == f.t.typ[flS]
	}
	for fl := 0; fl < 2; fl++ {
		if fl == flS && same {
			t.typ[flS] = t.typ[flZ]
			break
		}
		sf := make([]reflect.StructField, len(fs))
		for i, f := range fs {
			sf[i] = reflect.StructField{Name: "F" + strconv.Itoa(i), Type: f.t.typ[fl]}
			if f.opt.s != "" {
				sf[i].Tag = reflect.StructTag(`asn1:"` + f.opt.s + `"`)
			}
			if f.t.flag {
				t.flag = true
			}
		}
		t.typ[fl] = reflect.StructOf(sf)
	}
	return t
}

func sliceNode(e *tnode) *tnode {
	return &tnode{elem: e, typ: [2]reflect.Type{reflect.SliceOf(e.typ[flZ]), reflect.SliceOf(e.typ[flS])}, flag: e.flag}
}

// vnode is a value tree: leaf = index into the kind's alphabet.
type vnode struct {
	Idx  int     `json:"i"`
	Kids []vnode `json:"k,omitempty"`
	Nil  bool    `json:"nil,omitempty"`
}

func mkval(t *tnode, v *vnode, fl int) reflect.Value {
	switch {
	case t.leaf != nil:
		return t.leaf.vals[v.Idx].v[fl]
	case t.elem != nil:
		if v.Nil {
			return reflect.Zero(t.typ[fl])
		}
		s := reflect.MakeSlice(t.typ[fl], len(v.Kids), len(v.Kids))
		for i := range v.Kids {
			s.Index(i).Set(mkval(t.elem, &v.Kids[i], fl))
		}
		return s
	}
	s := reflect.New(t.typ[fl]).Elem()
	for i, f := range t.fields {
		s.Field(i).Set(mkval(f.t, &v.Kids[i], fl))
	}
	return s
}

func vlabel(t *tnode, v *vnode) string {
	switch {
	case t.leaf != nil:
		return t.leaf.vals[v.Idx].label
	case t.elem != nil:
		if v.Nil {
			return "nil"
		}
		p := []string{}
		for i := range v.Kids {
			p = append(p, vlabel(t.elem, &v.Kids[i]))
		}
		return "[" + strings.Join(p, " ") + "]"
	}
	p := []string{}
	for i, f := range t.fields {
		p = append(p, vlabel(f.t, &v.Kids[i]))
	}
	return "{" + strings.Join(p, "; ") + "}"
}

// ---- JSON form of a type tree (witness / replay) -------------------------

type tjson struct {
	Kind   string  `json:"kind,omitempty"`
	Fields []fjson `json:"fields,omitempty"`
	Elem   *tjson  `json:"elem,omitempty"`
}
type fjson struct {
	Opt string `json:"opt"`
	T   tjson  `json:"t"`
}

func toJSON(t *tnode) tjson {
	switch {
	case t.leaf != nil:
		return tjson{Kind: t.leaf.name}
	case t.elem != nil:
		e := toJSON(t.elem)
		return tjson{Elem: &e}
	}
	j := tjson{}
	for _, f := range t.fields {
		j.Fields = append(j.Fields, fjson{f.opt.s, toJSON(f.t)})
	}
	return j
}

func fromJSON(j tjson) (*tnode, error) {
	switch {
	case j.Kind != "":
		k := kindByName[j.Kind]
		if k == nil {
			return nil, fmt.Errorf("unknown kind %q", j.Kind)
		}
		return leafNode(k), nil
	case j.Elem != nil:
		e, err := fromJSON(*j.Elem)
		if err != nil {
			return nil, err
		}
		return sliceNode(e), nil
	}
	var fs []tfield
	for _, f := range j.Fields {
		t, err := fromJSON(f.T)
		if err != nil {
			return nil, err
		}
		o := getOpt(f.Opt)
		if o == nil {
			o = parseOpt(f.Opt)
		}
		fs = append(fs, tfield{o, t})
	}
	return structNode(fs), nil
}

var tagNum = regexp.MustCompile(`tag:(\d+)`)

func normOpt(s string) string {
	return tagNum.ReplaceAllStringFunc(s, func(m string) string {
		n, _ := strconv.Atoi(m[4:])
		if n >= 31 {
			return "tag:N>=31"
		}
		for _, u := range univNums {
			if n == u && n != 2 && n != 4 {
				return m // the shrinker could not replace it by tag:1: the number matters
			}
		}
		return "tag:N"
	})
}

// describe renders the type class used in violation signatures.
func describe(t *tnode) string {
	switch {
	case t.leaf != nil:
		return t.leaf.name
	case t.elem != nil:
		return "[]" + describe(t.elem)
	}
	p := []string{}
	for _, f := range t.fields {
		p = append(p, describe(f.t)+" `"+normOpt(f.opt.s)+"`")
	}
	return "struct{" + strings.Join(p, "; ") + "}"
}

// exact Go-ish rendering (witness).
func goType(t *tnode) string {
	switch {
	case t.leaf != nil:
		return t.leaf.name
	case t.elem != nil:
		return "[]" + goType(t.elem)
	}
	p := []string{}
	for i, f := range t.fields {
		s := fmt.Sprintf("F%d %s", i, goType(f.t))
		if f.opt.s != "" {
			s += " `asn1:\"" + f.opt.s + "\"`"
		}
		p = append(p, s)
	}
	return "struct{ " + strings.Join(p, "; ") + " }"
}

// ---- canonical form: the statement's equivalences ------------------------
//
//   sets up to order, times as instants truncated to the second, nil == empty
//   for slices, RawValue by the element it denotes (FullBytes if present, else
//   Class/Tag/IsCompound/Bytes), *big.Int by value.
// Works on both flavours (zcrypto / standard library types) by shape.

var (
	timeT   = reflect.TypeOf(time.Time{})
	bigIntT = reflect.TypeOf((*big.Int)(nil))
)

var setTagCache sync.Map // reflect.StructTag -> bool

func tagHasSet(tag reflect.StructTag) bool {
	if v, ok := setTagCache.Load(tag); ok {
		return v.(bool)
	}
	has := false
	for _, p := range strings.Split(tag.Get("asn1"), ",") {
		if p == "set" {
			has = true
		}
	}
	setTagCache.Store(tag, has)
	return has
}

func canon(v reflect.Value, set bool) string {
	t := v.Type()
	switch t {
	case timeT:
		tm := v.Interface().(time.Time)
		return "T" + strconv.FormatInt(tm.Unix(), 10)
	case bigIntT:
		if v.IsNil() {
			return "big:nil"
		}
		return "big:" + v.Interface().(*big.Int).String()
	}
	switch t.Kind() {
	case reflect.Bool:
		return strconv.FormatBool(v.Bool())
	case reflect.Int, reflect.Int8, reflect.Int16, reflect.Int32, reflect.Int64:
		return strconv.FormatInt(v.Int(), 10)
	case reflect.String:
		return strconv.Quote(v.String())
	case reflect.Slice:
		if t.Elem().Kind() == reflect.Uint8 {
			return "h" + hex.EncodeToString(v.Bytes())
		}
		es := make([]string, v.Len())
		eset := strings.HasSuffix(t.Elem().Name(), "SET")
		for i := range es {
			es[i] = canon(v.Index(i), eset)
		}
		if set || strings.HasSuffix(t.Name(), "SET") {
			sort.Strings(es)
			return "set[" + strings.Join(es, ",") + "]"
		}
		return "[" + strings.Join(es, ",") + "]"
	case reflect.Struct:
		switch t.Name() {
		case "BitString":
			return fmt.Sprintf("bits(%x/%d)", v.Field(0).Bytes(), v.Field(1).Int())
		case "RawValue":
			full := v.Field(4).Bytes()
			if len(full) == 0 {
				full = rawTLV(int(v.Field(0).Int()), int(v.Field(1).Int()), v.Field(2).Bool(), v.Field(3).Bytes())
			}
			return "raw(" + hex.EncodeToString(full) + ")"
		}
		p := make([]string, t.NumField())
		for i := range p {
			p[i] = canon(v.Field(i), tagHasSet(t.Field(i).Tag))
		}
		return "{" + strings.Join(p, ";") + "}"
	}
	panic("canon: unsupported type " + t.String())
}
