// Reproducer (C18): an absent OPTIONAL EXPLICIT field followed by a last element
// with empty content: Unmarshal reports "explicit tag has no child" before it
// has looked at the tag (which does not match, so the field is simply absent).
package main

import (
	"fmt"
	"os"

	"github.com/zmap/zcrypto/encoding/asn1"
)

type T struct {
	A int `asn1:"optional,explicit,tag:0"`
	B []byte
}

func main() {
	asn1.AllowPermissiveParsing = false
	der, err := asn1.Marshal(T{}) // A absent, B empty OCTET STRING: 30 02 04 00
	fmt.Printf("Marshal: %x err=%v\n", der, err)
	var out T
	rest, err := asn1.Unmarshal(der, &out)
	fmt.Printf("Unmarshal: %+v rest=%x err=%v\n", out, rest, err)
	if err != nil {
		fmt.Println("ROUND TRIP FAILS")
		os.Exit(1)
	}
	// the same type works as soon as B is not empty:
	der, _ = asn1.Marshal(T{B: []byte{1}})
	_, err = asn1.Unmarshal(der, &out)
	fmt.Printf("with B={1}: %x err=%v\n", der, err)
}
