// Reproducer (C18): a time.Time field tagged `generalized,tag:N` (IMPLICIT) is
// marshalled as GeneralizedTime content, but Unmarshal ignores "generalized" and
// parses the content as UTCTime.
package main

import (
	"fmt"
	"os"
	"time"

	"github.com/zmap/zcrypto/encoding/asn1"
)

type T struct {
	A time.Time `asn1:"generalized,tag:1"`
}

func main() {
	asn1.AllowPermissiveParsing = false
	in := T{A: time.Date(2000, 1, 1, 0, 0, 0, 0, time.UTC)}
	der, err := asn1.Marshal(in)
	fmt.Printf("Marshal: %x err=%v\n", der, err)
	var out T
	rest, err := asn1.Unmarshal(der, &out)
	fmt.Printf("Unmarshal: %+v rest=%x err=%v\n", out, rest, err)
	if err != nil || !out.A.Equal(in.A) {
		fmt.Println("ROUND TRIP FAILS")
		os.Exit(1)
	}
}
