// Reproducer (C18): a field tagged `explicit,private,tag:N` is marshalled with a
// PRIVATE-class explicit wrapper, but Unmarshal expects a context-specific one.
package main

import (
	"fmt"
	"os"

	"github.com/zmap/zcrypto/encoding/asn1"
)

type T struct {
	A int `asn1:"explicit,private,tag:3"`
}

func main() {
	asn1.AllowPermissiveParsing = false
	der, err := asn1.Marshal(T{A: 5})
	fmt.Printf("Marshal: %x err=%v\n", der, err)
	var out T
	rest, err := asn1.Unmarshal(der, &out)
	fmt.Printf("Unmarshal: %+v rest=%x err=%v\n", out, rest, err)
	if err != nil || out.A != 5 {
		fmt.Println("ROUND TRIP FAILS")
		os.Exit(1)
	}
}
