package main

// Field kinds K and their value alphabets, in two "flavours": flavour Z uses
// the types of github.com/zmap/zcrypto/encoding/asn1 (the code under test),
// flavour S the types of Go's standard encoding/asn1 (cross-check only).

import (
	sasn1 "encoding/asn1"
	"math/big"
	"reflect"
	"time"

	zasn1 "github.com/zmap/zcrypto/encoding/asn1"
)

const (
	flZ = 0
	flS = 1
)

type kclass int

const (
	kInt kclass = iota
	kEnum
	kBig
	kBool
	kFlag
	kString
	kBytes
	kOID
	kBits
	kTime
	kRaw
	kStruct // S1
	kSlice  // slice of non-bytes
)

// S1 is the fixed nested struct of the design (one int + one string).
type S1 struct {
	A int
	B string
}

// Named slice types whose name ends in "SET": the package documents that such
// a type "is treated as if the set tag was set on it".
type IntSET []int
type StrSET []string
type S1SET []S1

type kval struct {
	label string
	lv    int // alphabet level: 1 core, 2 standard, 3 extended (see levelOne / alphabet)
	v     [2]reflect.Value
}

type kind struct {
	name string
	cls  kclass
	typ  [2]reflect.Type
	vals []kval
	// utag is the set of UNIVERSAL tag numbers the Unmarshal documentation
	// maps to this Go type (nil = any element at all: RawValue).
	utag []int
	any  bool
	dflt int // index of the baseline value for deviation-bounded enumeration
	set  bool
}

func (k *kind) add(label string, q bool, z, s interface{}) {
	if s == nil {
		s = z
	}
	lv := 3
	if q {
		lv = 2
	}
	for _, l := range levelOne[k.name] {
		if l == label {
			lv = 1
		}
	}
	k.vals = append(k.vals, kval{label, lv, [2]reflect.Value{reflect.ValueOf(z), reflect.ValueOf(s)}})
	if reflect.TypeOf(z) != k.typ[flZ] || reflect.TypeOf(s) != k.typ[flS] {
		panic("kind " + k.name + ": value " + label + " has the wrong static type")
	}
}

func newKind(name string, cls kclass, z, s interface{}, utag ...int) *kind {
	if s == nil {
		s = z
	}
	return &kind{name: name, cls: cls, typ: [2]reflect.Type{reflect.TypeOf(z), reflect.TypeOf(s)}, utag: utag}
}

// levelOne: the core alphabet (used for the full value product of 2- and
// 3-field types in the quick tier): zero/absent, a typical value, the boundary
// values the encoder/decoder branch on, one value outside the domain.
var levelOne = map[string][]string{
	"int":              {"0", "5", "-129", "9223372036854775807"},
	"int32":            {"0", "5", "-2147483648"},
	"int64":            {"0", "-1", "9223372036854775807"},
	"*big.Int":         {"nil", "0", "128", "-2^64"},
	"bool":             {"false", "true"},
	"string":           {`""`, `"a"`, `"é"`, `"12 3"`, `"a@b"`, `"\xff"`},
	"[]byte":           {"nil", "{}", "{ff 01}"},
	"ObjectIdentifier": {"nil", "1.2", "1.39.2147483647", "1(invalid)"},
	"BitString":        {"zero", "ff80/9", "ff/1(inconsistent)"},
	"time.Time":        {"zero(0001-01-01)", "2049-12-31T23:59:59", "2050-01-01", "2000-02-29T12:34:56+01:00", "2000-01-01T00:00:00.5"},
	"Enumerated":       {"0", "5", "-2147483648"},
	"Flag":             {"false", "true"},
	"RawValue":         {"zero", "[0]{INTEGER 5}", "FullBytes only INTEGER 5", "inconsistent (Tag 2 but FullBytes 0400)"},
	"S1":               {"{0,\"\"}", "{1,\"a\"}", "{-129,\"é\"}"},
	"[]int":            {"nil", "{}", "{3,1,2}"},
	"IntSET":           {"nil", "{}", "{3,1,2}"},
	"[]string":         {"nil", "{b,a,é}", "{\"\",\"\"}"},
	"StrSET":           {"nil", "{b,a,é}", "{\"\",\"\"}"},
	"[]S1":             {"nil", "{{1,a}}", "{{2,b},{1,a},{1,\"\"}}"},
	"S1SET":            {"nil", "{{1,a}}", "{{2,b},{1,a},{1,\"\"}}"},
	"[]IntSET":         {"nil", "{{3,1},{2}}", "{{},{1}}"},
}

var stringTags = []int{12, 18, 19, 20, 22, 27, 30}

func pow2(n uint) *big.Int { return new(big.Int).Lsh(big.NewInt(1), n) }

var kinds []*kind
var kindByName = map[string]*kind{}

func initKinds() {
	reg := func(k *kind) *kind {
		kinds = append(kinds, k)
		kindByName[k.name] = k
		return k
	}
	type iv struct {
		v int64
		q bool
	}
	i64 := []iv{{0, true}, {1, true}, {-1, true}, {5, true}, {127, false}, {128, true}, {-128, false}, {-129, true},
		{255, false}, {256, false}, {1<<31 - 1, false}, {1 << 31, false}, {-1 << 31, false}, {1<<63 - 1, true}, {-1 << 63, true}}
	i32 := []iv{{0, true}, {1, true}, {-1, true}, {5, true}, {127, false}, {128, true}, {-128, false}, {-129, true},
		{255, false}, {32768, false}, {1<<31 - 1, true}, {-1 << 31, true}}
	lbl := func(v int64) string { return big.NewInt(v).String() }

	k := reg(newKind("int", kInt, int(0), nil, 2))
	for _, x := range i64 {
		k.add(lbl(x.v), x.q, int(x.v), nil)
	}
	k.dflt = 1
	k = reg(newKind("int32", kInt, int32(0), nil, 2))
	for _, x := range i32 {
		k.add(lbl(x.v), x.q, int32(x.v), nil)
	}
	k.dflt = 1
	k = reg(newKind("int64", kInt, int64(0), nil, 2))
	for _, x := range i64 {
		k.add(lbl(x.v), x.q, int64(x.v), nil)
	}
	k.dflt = 1

	k = reg(newKind("*big.Int", kBig, (*big.Int)(nil), nil, 2))
	k.add("nil", true, (*big.Int)(nil), nil)
	k.add("0", true, big.NewInt(0), nil)
	k.add("1", false, big.NewInt(1), nil)
	k.add("-1", true, big.NewInt(-1), nil)
	k.add("127", false, big.NewInt(127), nil)
	k.add("128", true, big.NewInt(128), nil)
	k.add("-128", false, big.NewInt(-128), nil)
	k.add("-129", true, big.NewInt(-129), nil)
	k.add("255", false, big.NewInt(255), nil)
	k.add("2^64", true, pow2(64), nil)
	k.add("-2^64", true, new(big.Int).Neg(pow2(64)), nil)
	k.add("2^63", false, pow2(63), nil)
	k.add("-2^63", false, new(big.Int).Neg(pow2(63)), nil)
	k.add("2^1024-1", false, new(big.Int).Sub(pow2(1024), big.NewInt(1)), nil) // long-form length
	k.dflt = 5

	k = reg(newKind("bool", kBool, false, nil, 1))
	k.add("false", true, false, nil)
	k.add("true", true, true, nil)
	k.dflt = 1

	k = reg(newKind("string", kString, "", nil, stringTags...))
	k.add(`""`, true, "", nil)
	k.add(`"a"`, true, "a", nil)
	k.add(`"a*b"`, true, "a*b", nil)
	k.add(`"é"`, true, "é", nil)
	k.add(`"12 3"`, true, "12 3", nil)
	k.add(`"a@b"`, true, "a@b", nil)
	k.add(`"a&b"`, true, "a&b", nil)
	k.add(`"\xff"`, true, "\xff", nil)
	k.add(`"A z'()+,-./:=?"`, false, "A z'()+,-./:=?", nil)
	k.add(`"\x00"`, false, "\x00", nil)
	k.add(`"\x7f"`, false, "\x7f", nil)
	k.add(`"日本語"`, false, "日本語", nil)
	k.add("128*'x'", false, string(make128('x')), nil) // long-form length
	// Systematic part of the string alphabet (extended level: every 1-field struct x every option, i.e. untyped and
	// under each string-type parameter). The PrintableString/UTF8String decision for an untyped string is made per
	// RUNE: per UTF-8 length class one rune whose low byte (rune & 0xff) is a PrintableString character and one whose
	// low byte is not, alone and mixed with ASCII; the first/last runes around the 1->2-byte and U+00FF/U+0100 borders;
	for _, sv := range []struct {
		l string
		q bool
		v string
	}{
		{`"ł"(2-byte, low byte 'B')`, true, "ł"}, {`"ałb"`, false, "ałb"},
		{`""`, false, ""}, {`"ÿ"`, false, "ÿ"}, {`"Ā"(low byte 00)`, false, "Ā"}, {`"aĀ"`, false, "aĀ"},
		{`"中"(3-byte, low byte '-')`, false, "中"}, {`"☺"(3-byte, low byte ':')`, false, "☺"}, {`"x 中"`, false, "x 中"},
		{`"€"(3-byte, low byte ac)`, false, "€"}, {`"a€"`, false, "a€"},
		{`"👁"(4-byte, low byte 'A')`, false, "👁"}, {`"a👁"`, false, "a👁"},
		{`"😀"(4-byte, low byte 00)`, false, "😀"}, {`"a😀"`, false, "a😀"},
		{`"􏿿"`, false, "􏿿"},
	} {
		k.add(sv.l, sv.q, sv.v, nil)
	}
	// every edge character of the PrintableString set on its own (first/last letter and digit, each punctuation
	// character) and the excluded ASCII characters next to them
	for _, ch := range "AZaz09 '()+,-./:=?" {
		k.add(`"`+string(ch)+`"(printable)`, false, string(ch), nil)
	}
	for _, ch := range "*@&_!\"#$%;<>[`{~" {
		k.add(`"`+string(ch)+`"(not printable)`, false, string(ch), nil)
	}
	k.dflt = 1

	k = reg(newKind("[]byte", kBytes, []byte(nil), nil, 4))
	k.add("nil", true, []byte(nil), nil)
	k.add("{}", true, []byte{}, nil)
	k.add("{00}", true, []byte{0}, nil)
	k.add("{ff 01}", true, []byte{255, 1}, nil)
	k.add("127*00", false, make([]byte, 127), nil)
	k.add("128*00", false, make([]byte, 128), nil)
	k.add("256*00", false, make([]byte, 256), nil)
	k.dflt = 3

	k = reg(newKind("ObjectIdentifier", kOID, zasn1.ObjectIdentifier(nil), sasn1.ObjectIdentifier(nil), 6))
	for _, o := range []struct {
		l string
		q bool
		v []int
	}{
		{"nil", true, nil}, {"1.2", true, []int{1, 2}}, {"2.999.3", true, []int{2, 999, 3}},
		{"1.39.2147483647", true, []int{1, 39, 1<<31 - 1}}, {"0.0", true, []int{0, 0}},
		{"1.40(invalid)", true, []int{1, 40}}, {"3.1(invalid)", true, []int{3, 1}}, {"1(invalid)", true, []int{1}},
		{"{}(invalid)", false, []int{}}, {"2.5.4.3", false, []int{2, 5, 4, 3}}, {"1.2.840.113549.1.1.11", false, []int{1, 2, 840, 113549, 1, 1, 11}},
		{"2.2147483567", false, []int{2, 1<<31 - 1 - 80}}, {"1.2.0.127.128.16383.16384", false, []int{1, 2, 0, 127, 128, 16383, 16384}},
	} {
		if o.v == nil {
			k.add(o.l, o.q, zasn1.ObjectIdentifier(nil), sasn1.ObjectIdentifier(nil))
		} else {
			k.add(o.l, o.q, zasn1.ObjectIdentifier(o.v), sasn1.ObjectIdentifier(o.v))
		}
	}
	k.dflt = 1

	k = reg(newKind("BitString", kBits, zasn1.BitString{}, sasn1.BitString{}, 3))
	for _, b := range []struct {
		l string
		q bool
		b []byte
		n int
	}{
		{"zero", true, nil, 0}, {"{}/0", false, []byte{}, 0}, {"80/1", true, []byte{0x80}, 1}, {"ff80/9", true, []byte{0xff, 0x80}, 9},
		{"0102/16", true, []byte{1, 2}, 16}, {"00/8", false, []byte{0}, 8}, {"fe/7", false, []byte{0xfe}, 7},
		{"ff/1(inconsistent)", true, []byte{0xff}, 1}, {"ff/16(inconsistent)", false, []byte{0xff}, 16},
	} {
		k.add(b.l, b.q, zasn1.BitString{Bytes: b.b, BitLength: b.n}, sasn1.BitString{Bytes: b.b, BitLength: b.n})
	}
	k.dflt = 3

	k = reg(newKind("time.Time", kTime, time.Time{}, nil, 23, 24))
	d := func(y int, mo time.Month, dd, h, mi, s, ns int, loc *time.Location) time.Time {
		return time.Date(y, mo, dd, h, mi, s, ns, loc)
	}
	k.add("zero(0001-01-01)", true, time.Time{}, nil)
	k.add("1950-01-01", true, d(1950, 1, 1, 0, 0, 0, 0, time.UTC), nil)
	k.add("1949-12-31T23:59:59", true, d(1949, 12, 31, 23, 59, 59, 0, time.UTC), nil)
	k.add("2049-12-31T23:59:59", true, d(2049, 12, 31, 23, 59, 59, 0, time.UTC), nil)
	k.add("2050-01-01", true, d(2050, 1, 1, 0, 0, 0, 0, time.UTC), nil)
	k.add("9999-12-31T23:59:59", true, d(9999, 12, 31, 23, 59, 59, 0, time.UTC), nil)
	k.add("2000-02-29T12:34:56+01:00", true, d(2000, 2, 29, 12, 34, 56, 0, time.FixedZone("", 3600)), nil)
	k.add("2000-01-01T00:00:00.5", true, d(2000, 1, 1, 0, 0, 0, 500000000, time.UTC), nil)
	k.add("10000-01-01(out of range)", true, d(10000, 1, 1, 0, 0, 0, 0, time.UTC), nil)
	k.add("0001-01-01T00:00:01", false, d(1, 1, 1, 0, 0, 1, 0, time.UTC), nil)
	k.add("1999-12-31T23:59:59", false, d(1999, 12, 31, 23, 59, 59, 0, time.UTC), nil)
	k.add("1969-07-20T20:17:40", false, d(1969, 7, 20, 20, 17, 40, 0, time.UTC), nil)
	k.add("2024-06-30T23:59:59.999999999", false, d(2024, 6, 30, 23, 59, 59, 999999999, time.UTC), nil)
	k.add("2049-12-31T23:59:59-05:30", false, d(2049, 12, 31, 23, 59, 59, 0, time.FixedZone("", -(5*3600+1800))), nil)
	k.add("2000-01-01T00:00:00+00:00:30(sub-minute zone)", false, d(2000, 1, 1, 0, 0, 0, 0, time.FixedZone("", 30)), nil)
	k.add("-0001-01-01(out of range)", false, d(-1, 1, 1, 0, 0, 0, 0, time.UTC), nil)
	k.dflt = 3

	k = reg(newKind("Enumerated", kEnum, zasn1.Enumerated(0), sasn1.Enumerated(0), 10))
	for _, x := range i32 {
		k.add(lbl(x.v), x.q, zasn1.Enumerated(x.v), sasn1.Enumerated(x.v))
	}
	k.dflt = 1

	k = reg(newKind("Flag", kFlag, zasn1.Flag(false), sasn1.Flag(false), 1))
	k.add("false", true, zasn1.Flag(false), sasn1.Flag(false))
	k.add("true", true, zasn1.Flag(true), sasn1.Flag(true))
	k.dflt = 1

	k = reg(newKind("RawValue", kRaw, zasn1.RawValue{}, sasn1.RawValue{}))
	k.any = true
	for _, r := range []struct {
		l        string
		q        bool
		cl, tg   int
		compound bool
		b, full  []byte
	}{
		{"zero", true, 0, 0, false, nil, nil},
		{"NULL", true, 0, 5, false, nil, nil},
		{"[0]{INTEGER 5}", true, 2, 0, true, []byte{2, 1, 5}, nil},
		{"UTF8 'a' all fields", true, 0, 12, false, []byte{'a'}, []byte{12, 1, 'a'}},
		{"FullBytes only INTEGER 5", true, 0, 0, false, nil, []byte{2, 1, 5}},
		{"[APPLICATION 31] 01", true, 1, 31, false, []byte{1}, nil},
		{"OCTET STRING 200*00", false, 0, 4, false, make([]byte, 200), nil},
		{"[PRIVATE 1000] empty", false, 3, 1000, false, []byte{}, nil},
		{"inconsistent (Tag 2 but FullBytes 0400)", true, 0, 2, false, []byte{1}, []byte{4, 0}},
		{"malformed FullBytes 0405", false, 0, 0, false, nil, []byte{4, 5}},
	} {
		k.add(r.l, r.q, zasn1.RawValue{Class: r.cl, Tag: r.tg, IsCompound: r.compound, Bytes: r.b, FullBytes: r.full},
			sasn1.RawValue{Class: r.cl, Tag: r.tg, IsCompound: r.compound, Bytes: r.b, FullBytes: r.full})
	}
	k.dflt = 2

	k = reg(newKind("S1", kStruct, S1{}, nil, 16))
	k.add("{0,\"\"}", true, S1{}, nil)
	k.add("{1,\"a\"}", true, S1{1, "a"}, nil)
	k.add("{-129,\"é\"}", true, S1{-129, "é"}, nil)
	k.add("{0,\"x\"}", true, S1{0, "x"}, nil)
	k.add("{7,\"\"}", false, S1{7, ""}, nil)
	k.dflt = 1

	intSlices := []struct {
		l string
		q bool
		v []int
	}{{"nil", true, nil}, {"{}", true, []int{}}, {"{7}", true, []int{7}}, {"{3,1,2}", true, []int{3, 1, 2}},
		{"{128,-1,128}", true, []int{128, -1, 128}}, {"{256,255,-256,0}", false, []int{256, 255, -256, 0}}, {"{2,1}", false, []int{2, 1}}}
	strSlices := []struct {
		l string
		q bool
		v []string
	}{{"nil", true, nil}, {"{b}", true, []string{"b"}}, {"{b,a,é}", true, []string{"b", "a", "é"}}, {"{\"\",\"\"}", true, []string{"", ""}},
		{"{}", false, []string{}}, {"{bb,b,a@}", false, []string{"bb", "b", "a@"}}}
	s1Slices := []struct {
		l string
		q bool
		v []S1
	}{{"nil", true, nil}, {"{{1,a}}", true, []S1{{1, "a"}}}, {"{{2,b},{1,a},{1,\"\"}}", true, []S1{{2, "b"}, {1, "a"}, {1, ""}}},
		{"{}", false, []S1{}}, {"{{0,\"\"},{0,\"\"}}", false, []S1{{}, {}}}}

	k = reg(newKind("[]int", kSlice, []int(nil), nil, 16))
	for _, x := range intSlices {
		k.add(x.l, x.q, x.v, nil)
	}
	k.dflt = 3
	k = reg(newKind("[]string", kSlice, []string(nil), nil, 16))
	for _, x := range strSlices {
		k.add(x.l, x.q, x.v, nil)
	}
	k.dflt = 2
	k = reg(newKind("[]S1", kSlice, []S1(nil), nil, 16))
	for _, x := range s1Slices {
		k.add(x.l, x.q, x.v, nil)
	}
	k.dflt = 2
	k = reg(newKind("IntSET", kSlice, IntSET(nil), nil, 17))
	k.set = true
	for _, x := range intSlices {
		k.add(x.l, x.q, IntSET(x.v), nil)
	}
	k.dflt = 3
	k = reg(newKind("StrSET", kSlice, StrSET(nil), nil, 17))
	k.set = true
	for _, x := range strSlices {
		k.add(x.l, x.q, StrSET(x.v), nil)
	}
	k.dflt = 2
	k = reg(newKind("S1SET", kSlice, S1SET(nil), nil, 17))
	k.set = true
	for _, x := range s1Slices {
		k.add(x.l, x.q, S1SET(x.v), nil)
	}
	k.dflt = 2
	k = reg(newKind("[]IntSET", kSlice, []IntSET(nil), nil, 16))
	k.add("nil", true, []IntSET(nil), nil)
	k.add("{{3,1},{2}}", true, []IntSET{{3, 1}, {2}}, nil)
	k.add("{{},{1}}", true, []IntSET{{}, {1}}, nil)
	k.add("{{2,1,0},{1,0}}", false, []IntSET{{2, 1, 0}, {1, 0}}, nil)
	k.dflt = 1
}

func make128(c byte) []byte {
	b := make([]byte, 128)
	for i := range b {
		b[i] = c
	}
	return b
}
