package main

// Re-entrancy pass (internal/nohb): Marshal/Unmarshal are called from every parser and serialiser of the library,
// on many goroutines at once; "Unmarshal(Marshal(v)) == v and the bytes are the DER of v" must not depend on another
// goroutine encoding or decoding at the same time (a shared encoder scratch buffer or a lazily filled per-type
// table would break exactly that). Every ordered pair of the menu below is run as "first call to completion, then
// the second on another goroutine" WITHOUT a happens-before edge in a -race build: ThreadSanitizer reports every
// location both calls touch unsynchronised, for all interleavings at once.
//
// Menu: 9 struct types built like the main phase builds them (reflect.StructOf over (kind, option) field specs;
// together they use every kind of the alphabet and EXPLICIT / IMPLICIT / APPLICATION / PRIVATE tags, OPTIONAL,
// DEFAULT, SET, omitempty, every string and time option), each with one value of the documented domain:
// asn1.Marshal of the caller's own value and strict asn1.Unmarshal of the caller's own copy of the bytes into a
// fresh destination. The caller's own value is obtained by decoding the bytes once more before the pair starts, so
// no pointer, slice or *big.Int of the kind alphabets is shared between the two calls. At menu construction each
// (type, value) must lie inside the documented domain (classify) without a documented limitation. Two further calls
// use a struct type with field tags the library has never seen (a new one per call), for per-type / per-tag tables
// that are filled lazily.

import (
	"os"
	"reflect"
	"strconv"
	"time"

	zasn1 "github.com/zmap/zcrypto/encoding/asn1"
	"verifmc/internal/ev"
	"verifmc/internal/nohb"
)

func reentrantRepoDir() string {
	if v := os.Getenv("VERIF_REPO_DIR"); v != "" {
		return v
	}
	return "/repo"
}

type reField struct{ kind, opt, label string }

func reCase(fs []reField) (*tnode, *vnode) {
	var tf []tfield
	vn := &vnode{}
	for _, f := range fs {
		k := kindByName[f.kind]
		o := getOpt(f.opt)
		if k == nil || o == nil {
			panic("c18 re-entrancy: unknown kind/option " + f.kind + " / " + f.opt)
		}
		idx := -1
		for i, v := range k.vals {
			if v.label == f.label {
				idx = i
			}
		}
		if idx < 0 {
			panic("c18 re-entrancy: kind " + f.kind + " has no value " + f.label)
		}
		if ok, why := pairOK(leafNode(k), o); !ok {
			panic("c18 re-entrancy: " + f.kind + " with option " + f.opt + " is outside the documented domain: " + why)
		}
		tf = append(tf, tfield{o, leafNode(k)})
		vn.Kids = append(vn.Kids, vnode{Idx: idx})
	}
	return structNode(tf), vn
}

func reentrantOps() []nohb.Op {
	zasn1.AllowPermissiveParsing = false
	initKinds()
	initOpts()
	initLeaves()
	cases := [][]reField{
		{{"int", "", "5"}, {"string", "utf8", `"é"`}, {"[]byte", "optional,tag:1", "{ff 01}"}},
		{{"*big.Int", "", "-2^64"}, {"time.Time", "generalized", "2050-01-01"}, {"ObjectIdentifier", "", "1.39.2147483647"}},
		{{"BitString", "", "ff80/9"}, {"bool", "", "true"}, {"Enumerated", "", "5"}},
		{{"[]int", "set", "{3,1,2}"}, {"S1", "optional,explicit,tag:0", `{-129,"é"}`}, {"int", "optional,default:5", "0"}},
		{{"RawValue", "", "[0]{INTEGER 5}"}, {"Flag", "optional,tag:1", "true"}, {"int64", "explicit,application,tag:4", "-1"}},
		{{"[]S1", "", `{{2,b},{1,a},{1,""}}`}, {"StrSET", "", "{b,a,é}"}, {"[]IntSET", "omitempty", "{{3,1},{2}}"}},
		{{"time.Time", "utc", "2049-12-31T23:59:59"}, {"string", "printable,tag:1", `"a"`}, {"int32", "private,tag:3", "-2147483648"}},
		{{"string", "ia5", `"a@b"`}, {"[]string", "", "{b,a,é}"}, {"S1SET", "explicit,tag:0", "{{1,a}}"}},
		{{"string", "numeric", `"12 3"`}, {"IntSET", "optional", "{3,1,2}"}, {"*big.Int", "optional,explicit,tag:200", "128"}},
	}
	var ops []nohb.Op
	for _, fs := range cases {
		t, vn := reCase(fs)
		if !typeOK(t) {
			panic("c18 re-entrancy: type " + goType(t) + " is excluded by the domain predicate")
		}
		if inD, lim := classify(t, mkval(t, vn, flZ), emptyOpt); !inD || lim != "" {
			panic("c18 re-entrancy: menu value " + goType(t) + " " + vlabel(t, vn) + " is not inside the documented domain: " + lim)
		}
		der, err := zasn1.Marshal(mkval(t, vn, flZ).Interface())
		if err != nil {
			continue // Marshal refuses a value of the domain on this tree: the main phase reports that
		}
		typ := t.typ[flZ]
		name := goType(t) + " = " + vlabel(t, vn)
		ops = append(ops, nohb.Op{Name: "asn1.Marshal(" + name + ")", New: func() func() {
			own := reflect.New(typ)
			_, err := zasn1.Unmarshal(append([]byte{}, der...), own.Interface())
			v := own.Elem().Interface()
			return func() {
				if err == nil {
					zasn1.Marshal(v)
				}
			}
		}})
		ops = append(ops, nohb.Op{Name: "asn1.Unmarshal(bytes of " + name + ")", New: func() func() {
			in := append([]byte{}, der...)
			dst := reflect.New(typ).Interface()
			return func() { zasn1.Unmarshal(in, dst) }
		}})
	}
	// Types (and field tags) NEVER SEEN BEFORE by the library: everything above has been encoded and decoded once
	// on the main goroutine while the menu was built, so a table the library fills lazily per type or per tag string
	// would already be complete and only be read inside the pairs. Each call below gets a struct type with field
	// tags numbered by a running counter (reflect.StructOf), i.e. both calls of every pair make the library see a
	// new type; the DER handed to Unmarshal is written by the harness (rawTLV), not by Marshal.
	fresh := func() (reflect.Type, int) {
		reFreshN++
		n := 1000 + 2*reFreshN
		return reflect.StructOf([]reflect.StructField{
			{Name: "F0", Type: reflect.TypeOf(int(0)), Tag: reflect.StructTag(`asn1:"tag:` + strconv.Itoa(n) + `"`)},
			{Name: "F1", Type: reflect.TypeOf(""), Tag: reflect.StructTag(`asn1:"optional,utf8,explicit,tag:` + strconv.Itoa(n+1) + `"`)},
		}), n
	}
	ops = append(ops, nohb.Op{Name: "asn1.Marshal(value of a struct type with never-seen field tags)", New: func() func() {
		typ, _ := fresh()
		v := reflect.New(typ).Elem()
		v.Field(0).SetInt(5)
		v.Field(1).SetString("é")
		val := v.Interface()
		return func() { zasn1.Marshal(val) }
	}})
	ops = append(ops, nohb.Op{Name: "asn1.Unmarshal(harness-written DER, struct type with never-seen field tags)", New: func() func() {
		typ, n := fresh()
		in := rawTLV(0, 16, true, append(rawTLV(2, n, false, []byte{5}), rawTLV(2, n+1, true, rawTLV(0, 12, false, []byte("é")))...))
		dst := reflect.New(typ).Interface()
		return func() { zasn1.Unmarshal(in, dst) }
	}})
	return ops
}

var reFreshN int

const reentrantMenuText = "asn1.Marshal of an own value and strict asn1.Unmarshal of own bytes for 9 reflect.StructOf types covering every kind and option class of the alphabet, plus Marshal/Unmarshal with a struct type whose field tags the library has never seen (new type per call: lazily filled per-type/per-tag tables)"

func reentrantPhase(c *ev.Ctx) {
	if c.Replay != nil {
		return // --replay re-executes one recorded witness of the main phase only
	}
	t0 := time.Now()
	o := nohb.Run(os.Getenv("VERIF_RACE_BIN"), nil, 10*time.Minute)
	if o.Broken != "" {
		c.Broken("re-entrancy pass: %s", o.Broken)
	}
	for _, sig := range o.Sigs() {
		c.Violation("re-entrancy: two calls on different goroutines share unsynchronised state: "+sig, map[string]any{"pair": o.Races[sig], "kind": "nohb"})
	}
	for k, v := range o.Panics {
		c.Violation("re-entrancy: "+k, map[string]any{"pair": v, "kind": "nohb"})
	}
	c.Outcome("re-entrancy pairs without a report", int64(o.Pairs))
	c.States.Add(int64(o.Pairs))
	c.Traces.Add(int64(o.Pairs))
	c.Set("reentrancy", map[string]any{"calls": o.Ops, "ordered_pairs": o.Pairs, "race_signatures": len(o.Races), "harness_only_reports": o.Harness, "canary_ok": o.CanaryOK,
		"seconds": time.Since(t0).Seconds(), "menu": reentrantMenuText,
		"method": "every ordered pair (a, b) of the menu: a to completion on one goroutine, then b on another, without a happens-before edge, in a -race build; a ThreadSanitizer report with both accesses in the repository is a violation"})
}
