package main

import (
	"bytes"
	sasn1 "encoding/asn1"
	"encoding/hex"
	"reflect"
	"regexp"
	"strings"

	zasn1 "github.com/zmap/zcrypto/encoding/asn1"
	"verifmc/internal/ev"
)

type result struct {
	fail    string // "" = the property held (or did not apply); else the failure class
	detail  string
	outcome string // histogram class
	bytes   []byte
	notes   []string // cross-check observations (never verdicts)
	calls   int      // zcrypto Marshal/Unmarshal calls made
	full    bool     // the complete round-trip oracle was evaluated
	nonTriv bool
}

var hexPtr = regexp.MustCompile(`0x[0-9a-f]+`)

// errClass: the stable head of an error/panic message (up to the first quote,
// parenthesis or digit).
func errClass(s string) string {
	s = hexPtr.ReplaceAllString(s, "P")
	for i, r := range s {
		if r == '"' || r == '(' || r == '{' || (r >= '0' && r <= '9' && i > 4) {
			s = s[:i]
			break
		}
	}
	s = strings.TrimRight(s, " :")
	if len(s) > 90 {
		s = s[:90]
	}
	return s
}

// runCase evaluates the C18 oracle on one (type, value).
func runCase(t *tnode, vn *vnode, cross bool) (r result) {
	zv := mkval(t, vn, flZ)
	inD, lim := classify(t, zv, emptyOpt)

	var b []byte
	var err error
	r.calls++
	if p, msg, site := ev.Try(func() { b, err = zasn1.Marshal(zv.Interface()) }); p {
		if inD {
			r.fail = "panic in Marshal @" + site + ": " + ev.MsgClass(msg)
			r.detail = msg
		}
		r.outcome = "panic in Marshal on a value outside the domain (not a verdict)"
		return
	}
	if err != nil {
		if inD {
			r.fail = "Marshal rejects a value of the documented domain [" + errClass(err.Error()) + "]"
			r.detail = err.Error()
			return
		}
		r.outcome = "Marshal error, value outside the domain"
		return
	}
	r.bytes = b
	out := reflect.New(t.typ[flZ])
	if inD {
		// The value is inside the documented domain: whatever Unmarshal can or
		// cannot do with it later, Marshal's output must be THE DER encoding of
		// the value under the declared type. Two independent oracles:
		// (1) the harness's typed walker (identifier octets computed from the
		// field options by the harness, content octets by its own encoders),
		// (2) Go's standard encoding/asn1.Marshal on the same value and type
		// (the fork documents no deliberate difference for Marshal).
		if why := walkDER(b, walkCfg{single: true, allowEmptyBo: t.flag}); why != "" {
			r.fail = "Marshal output is not DER [" + why + "]"
			r.detail = why
			return
		}
		if why := typedWalk(zv, b); why != "" {
			r.fail = "Marshal output is not the encoding of the value under its declared type [" + why + "]"
			r.detail = why
			return
		}
		if cross {
			if why, note := stdMarshalCheck(t, vn, b); why != "" {
				r.fail = "Marshal output differs from Go's encoding/asn1 for the same value and type [" + why + "]"
				r.detail = note
				return
			}
		}
	}
	if lim != "" {
		// documented limitation: of Unmarshal only "does not panic" is checked.
		r.calls++
		if p, msg, site := ev.Try(func() { zasn1.Unmarshal(b, out.Interface()) }); p {
			r.fail = "panic in Unmarshal @" + site + ": " + ev.MsgClass(msg)
			r.detail = msg
			return
		}
		r.outcome = "exempt: " + lim
		return
	}
	r.full = true
	if why := walkDER(b, walkCfg{single: true, allowEmptyBo: t.flag}); why != "" {
		r.fail = "Marshal output is not DER [" + why + "]"
		r.detail = why
		return
	}
	if top := splitTLV(b); len(top) == 1 && defaultEncoded(t, zv, top[0].content) {
		r.fail = "Marshal output is not DER [component equal to its DEFAULT value is encoded]"
		r.detail = "X.690 11.5"
		return
	}
	var rest []byte
	r.calls++
	if p, msg, site := ev.Try(func() { rest, err = zasn1.Unmarshal(b, out.Interface()) }); p {
		r.fail = "panic in Unmarshal @" + site + ": " + ev.MsgClass(msg)
		r.detail = msg
		return
	}
	if err != nil {
		r.fail = "strict Unmarshal rejects Marshal's output [" + errClass(err.Error()) + "]"
		r.detail = err.Error()
		return
	}
	if len(rest) != 0 {
		r.fail = "Unmarshal leaves trailing bytes"
		r.detail = "rest=" + hex.EncodeToString(rest)
		return
	}
	want := canon(zv, false)
	got := canon(out.Elem(), false)
	if want != got {
		r.fail = "decoded value differs"
		r.detail = "want " + want + " got " + got
		return
	}
	var b2 []byte
	r.calls++
	if p, msg, site := ev.Try(func() { b2, err = zasn1.Marshal(out.Elem().Interface()) }); p {
		r.fail = "panic in re-Marshal @" + site + ": " + ev.MsgClass(msg)
		r.detail = msg
		return
	}
	if err != nil {
		r.fail = "re-Marshal of the decoded value fails [" + errClass(err.Error()) + "]"
		r.detail = err.Error()
		return
	}
	if !bytes.Equal(b, b2) {
		r.fail = "re-Marshal is not idempotent"
		r.detail = "first " + hex.EncodeToString(b) + " second " + hex.EncodeToString(b2)
		return
	}
	r.nonTriv = len(b) > 2
	switch {
	case !inD:
		r.outcome = "round trip ok (value outside D that Marshal accepts)"
	case len(b) == 2:
		r.outcome = "round trip ok (everything absent: empty SEQUENCE)"
	default:
		r.outcome = "round trip ok"
	}
	if cross {
		var viol string
		r.notes, viol = crossCheck(t, vn, b, want, inD, false)
		if viol != "" {
			r.fail = "Go's encoding/asn1 disagrees about Marshal's output [" + viol + "]"
			r.detail = viol
			r.nonTriv = false
		}
	}
	return
}

// stdMarshalCheck: byte comparison with the standard library's Marshal of the
// same value under the same struct tags (flavour S types). why != "" = verdict.
func stdMarshalCheck(t *tnode, vn *vnode, b []byte) (why, detail string) {
	sv := mkval(t, vn, flS)
	var sb []byte
	var err error
	if p, msg, _ := ev.Try(func() { sb, err = sasn1.Marshal(sv.Interface()) }); p {
		return "", "stdlib Marshal panics: " + msg // the standard library's problem, not a verdict
	}
	switch {
	case err != nil:
		return "stdlib rejects the value: " + errClass(err.Error()), err.Error()
	case !bytes.Equal(sb, b):
		return "different bytes", "zcrypto " + hex.EncodeToString(b) + " stdlib " + hex.EncodeToString(sb)
	}
	return "", ""
}

// stdlibRejectsByDesign: the two places where the fork's Unmarshal deliberately
// accepts what the standard library's rejects (repaired defects da54108 and
// 5a1db0a; the standard library still has both): an EXPLICIT PRIVATE tag, and an
// absent OPTIONAL EXPLICIT component in front of an element with empty content.
func stdlibRejectsByDesign(t *tnode, class string) bool {
	has := func(pred func(o *opt) bool) bool {
		var rec func(t *tnode) bool
		rec = func(t *tnode) bool {
			if t.elem != nil {
				return rec(t.elem)
			}
			for _, f := range t.fields {
				if pred(f.opt) || rec(f.t) {
					return true
				}
			}
			return false
		}
		return rec(t)
	}
	switch class {
	case "asn1: structure error: explicitly tagged member didn't match":
		return has(func(o *opt) bool { return o.explicit && o.class == 3 })
	case "asn1: structure error: explicit tag has no child":
		return has(func(o *opt) bool { return o.explicit && o.optional })
	case "optional explicit private read as absent":
		// the same upstream defect as the first class, on an OPTIONAL component: the standard library
		// expects class CONTEXT for every EXPLICIT tag that is not APPLICATION, takes the PRIVATE
		// element for "not my tag" and reads the component as absent instead of rejecting
		return has(func(o *opt) bool { return o.explicit && o.class == 3 && o.optional })
	}
	return false
}

// crossCheck: Go's standard encoding/asn1 (which shares the tag syntax) must
// read zcrypto's bytes as the same value. For values inside the domain a
// disagreement is a verdict (viol), except the two rejection classes where the
// fork differs by design (stdlibRejectsByDesign); outside the domain everything
// is an observation. The Marshal comparison for values outside the domain that
// Marshal accepts is an observation too.
func crossCheck(t *tnode, vn *vnode, b []byte, want string, inD, witness bool) (notes []string, viol string) {
	out := reflect.New(t.typ[flS])
	var rest []byte
	var err error
	if p, _, _ := ev.Try(func() { rest, err = sasn1.Unmarshal(b, out.Interface()) }); p {
		return []string{"stdlib Unmarshal panics"}, ""
	}
	switch {
	case err != nil:
		cl := errClass(err.Error())
		notes = append(notes, "stdlib Unmarshal rejects zcrypto's bytes ["+cl+"]")
		if inD && !stdlibRejectsByDesign(t, cl) {
			viol = "stdlib Unmarshal rejects the bytes: " + cl
		}
	case len(rest) != 0:
		notes = append(notes, "stdlib Unmarshal leaves trailing bytes")
		if inD {
			viol = "stdlib Unmarshal leaves trailing bytes"
		}
	case canon(out.Elem(), false) != want:
		notes = append(notes, "stdlib decodes zcrypto's bytes to a different value")
		if inD && !stdlibRejectsByDesign(t, "optional explicit private read as absent") {
			viol = "stdlib decodes the bytes to a different value"
		}
	default:
		notes = append(notes, "stdlib decodes zcrypto's bytes to the same value")
	}
	pre := "outside the domain: "
	if witness {
		pre = ""
	} else if inD {
		notes = append(notes, "stdlib Marshal produces identical bytes") // verdict already passed in runCase
		return
	}
	sv := mkval(t, vn, flS)
	var sb []byte
	if p, _, _ := ev.Try(func() { sb, err = sasn1.Marshal(sv.Interface()) }); p {
		return append(notes, "stdlib Marshal panics"), viol
	}
	switch {
	case err != nil:
		notes = append(notes, pre+"stdlib Marshal rejects a value zcrypto accepts ["+errClass(err.Error())+"]")
	case !bytes.Equal(sb, b):
		notes = append(notes, pre+"stdlib Marshal produces different bytes")
	default:
		notes = append(notes, pre+"stdlib Marshal produces identical bytes")
	}
	return
}
