package main

// Tag options O, the harness's own reading of them, and the DOMAIN PREDICATE:
//   pairOK      – which (Go type, option) pairs the package documents as meaningful,
//   ambiguous   – which struct types are inherently ambiguous to decode (OPTIONAL
//                 field not distinguishable by tag from a successor, X.680 §25.6),
//   classify    – which VALUES are inside the documented domain (D: Marshal must
//                 succeed) and which hit a documented limitation (L: round trip not promised).
// Nothing here calls zcrypto.

import (
	"math"
	"math/big"
	"reflect"
	"strconv"
	"strings"
	"time"
	"unicode/utf8"

	zasn1 "github.com/zmap/zcrypto/encoding/asn1"
)

type opt struct {
	s                                  string
	optional, explicit, set, omitempty bool
	hasTag                             bool
	tag                                int
	class                              int // 0 universal (no tag option), 1 application, 2 context-specific, 3 private
	def                                *int64
	strType                            int // 0 or 12/18/19/22
	timeType                           int // 0 or 23/24
}

func (o *opt) implicit() bool { return o.hasTag && !o.explicit }

var optCache = map[string]*opt{}

func parseOpt(s string) *opt {
	o := &opt{s: s}
	app, priv := false, false
	for _, p := range strings.Split(s, ",") {
		switch {
		case p == "":
		case p == "optional":
			o.optional = true
		case p == "explicit":
			o.explicit = true
		case p == "set":
			o.set = true
		case p == "omitempty":
			o.omitempty = true
		case p == "application":
			app = true
		case p == "private":
			priv = true
		case p == "ia5":
			o.strType = 22
		case p == "printable":
			o.strType = 19
		case p == "numeric":
			o.strType = 18
		case p == "utf8":
			o.strType = 12
		case p == "utc":
			o.timeType = 23
		case p == "generalized":
			o.timeType = 24
		case strings.HasPrefix(p, "tag:"):
			n, err := strconv.Atoi(p[4:])
			if err != nil {
				panic("bad option " + s)
			}
			o.hasTag, o.tag = true, n
		case strings.HasPrefix(p, "default:"):
			n, err := strconv.ParseInt(p[8:], 10, 64)
			if err != nil {
				panic("bad option " + s)
			}
			o.def = &n
		default:
			panic("unknown option token " + p)
		}
	}
	if o.hasTag {
		o.class = 2
		if app {
			o.class = 1
		} else if priv {
			o.class = 3
		}
	} else if app || priv || o.explicit {
		panic("option without tag number: " + s)
	}
	return o
}

func getOpt(s string) *opt { return optCache[s] }

// The option alphabet O. Every K x O pair is enumerated; pairOK filters.
var optStrings = []string{
	// tagging, any kind
	"", "optional", "explicit,tag:0", "tag:1", "application,tag:2", "private,tag:3",
	"explicit,application,tag:4", "explicit,private,tag:3", "optional,explicit,tag:0", "optional,tag:1",
	"tag:31", "optional,explicit,tag:200", "optional,application,tag:2",
	// SET
	"set", "set,tag:1", "set,explicit,tag:0", "optional,set",
	// omitempty (Marshal only)
	"omitempty", "optional,omitempty", "omitempty,tag:1", "omitempty,set",
	// default
	"optional,default:5", "optional,explicit,default:5,tag:0", "default:5",
	// string types
	"ia5", "printable", "utf8", "numeric", "ia5,tag:1", "printable,tag:1", "utf8,tag:1", "numeric,tag:1",
	"optional,utf8", "utf8,explicit,tag:0",
	// time types
	"utc", "generalized", "utc,tag:1", "generalized,tag:1", "generalized,explicit,tag:0", "optional,generalized",
}

var emptyOpt *opt

// univNums: tag numbers that coincide with UNIVERSAL type numbers the decoder
// switches on (INTEGER, OCTET STRING, the character string types, the time
// types, SEQUENCE, SET). Used as IMPLICIT context/application/private tag
// numbers on every field kind: a tag in another class is only a number and must
// never be read as a universal type.
var univNums = []int{2, 4, 12, 16, 17, 18, 19, 20, 22, 23, 24, 30}

// univOpt: option string -> class (1 application, 2 context, 3 private) for the
// options generated from univNums.
var univOpt = map[string]int{}

func initOpts() {
	for _, n := range univNums {
		ns := strconv.Itoa(n)
		for _, o := range []struct {
			s  string
			cl int
		}{{"tag:" + ns, 2}, {"optional,tag:" + ns, 2}, {"application,tag:" + ns, 1}, {"private,tag:" + ns, 3}} {
			dup := false
			for _, have := range optStrings {
				dup = dup || have == o.s // e.g. "application,tag:2" is already a regular option
			}
			if !dup {
				univOpt[o.s] = o.cl
				optStrings = append(optStrings, o.s)
			}
		}
	}
	for _, s := range optStrings {
		optCache[s] = parseOpt(s)
	}
	emptyOpt = optCache[""]
}

// node class of a type-tree node for the predicate.
func nodeClass(t *tnode) kclass {
	switch {
	case t.leaf != nil:
		return t.leaf.cls
	case t.elem != nil:
		return kSlice
	}
	return kStruct
}

// pairOK: is option o documented as meaningful on a field of this type?
func pairOK(t *tnode, o *opt) (bool, string) {
	c := nodeClass(t)
	if c == kRaw && (o.hasTag || o.set || o.omitempty || o.def != nil || o.strType != 0 || o.timeType != 0) {
		return false, "RawValue: only optional is documented (Marshal emits the raw element, tag options do not apply)"
	}
	if c == kFlag && !o.optional {
		return false, "Flag: 'set to true if present' is only meaningful on an OPTIONAL field"
	}
	if o.set && t.leaf != nil && t.leaf.set {
		return false, "set on a slice type whose name ends in SET: redundant combination, not documented (Marshal rejects it: 'non sequence tagged as set')"
	}
	if o.set && c != kSlice && c != kStruct {
		return false, "set: only SEQUENCE/SEQUENCE OF types (structs, slices)"
	}
	if o.omitempty && c != kSlice && c != kBytes {
		return false, "omitempty: documented for slices only"
	}
	if o.def != nil {
		if !o.optional {
			return false, "default: 'only used if optional is also present'"
		}
		if c != kInt && c != kEnum {
			return false, "default: documented for optional integer fields only"
		}
	}
	if o.strType != 0 && c != kString {
		return false, "string type option on a non-string field"
	}
	if o.timeType != 0 && c != kTime {
		return false, "time type option on a non-time field"
	}
	return true, ""
}

type ctag struct{ class, num int }

// tagSet: the identifiers (class, number) an encoding of this field may start
// with according to the documented Go<->ASN.1 mapping (a Go string stands for a
// CHOICE of all character string types, time.Time for UTCTime|GeneralizedTime,
// RawValue for ANY).
func tagSet(t *tnode, o *opt) (set []ctag, any bool) {
	if o.hasTag {
		return []ctag{{o.class, o.tag}}, false
	}
	switch {
	case t.leaf != nil:
		if t.leaf.any {
			return nil, true
		}
		if o.set {
			return []ctag{{0, 17}}, false
		}
		for _, n := range t.leaf.utag {
			set = append(set, ctag{0, n})
		}
		return set, false
	default:
		if o.set {
			return []ctag{{0, 17}}, false
		}
		return []ctag{{0, 16}}, false
	}
}

func intersects(a []ctag, aAny bool, b []ctag, bAny bool) bool {
	if aAny || bAny {
		return true
	}
	for _, x := range a {
		for _, y := range b {
			if x == y {
				return true
			}
		}
	}
	return false
}

// ambiguous: some OPTIONAL field shares a possible tag with one of the fields
// that may directly follow it when it is absent (all following fields up to and
// including the next mandatory one). ASN.1 itself forbids such types; decoding
// them cannot be unique, so they are outside the property's domain.
func ambiguous(fs []tfield) bool {
	for i, f := range fs {
		if !f.opt.optional {
			continue
		}
		si, ai := tagSet(f.t, f.opt)
		for j := i + 1; j < len(fs); j++ {
			sj, aj := tagSet(fs[j].t, fs[j].opt)
			if intersects(si, ai, sj, aj) {
				return true
			}
			if !fs[j].opt.optional {
				break
			}
		}
	}
	return false
}

// typeOK applies pairOK and ambiguous to every struct level of a type tree.
func typeOK(t *tnode) bool {
	switch {
	case t.leaf != nil:
		return true
	case t.elem != nil:
		return typeOK(t.elem)
	}
	for _, f := range t.fields {
		if ok, _ := pairOK(f.t, f.opt); !ok {
			return false
		}
		if !typeOK(f.t) {
			return false
		}
	}
	return !ambiguous(t.fields)
}

// ---- value domain -------------------------------------------------------

func x680Printable(s string) bool {
	for i := 0; i < len(s); i++ {
		b := s[i]
		switch {
		case 'a' <= b && b <= 'z', 'A' <= b && b <= 'Z', '0' <= b && b <= '9':
		case strings.IndexByte(" '()+,-./:=?", b) >= 0:
		default:
			return false
		}
	}
	return true
}

func isASCII(s string) bool {
	for i := 0; i < len(s); i++ {
		if s[i] > 127 {
			return false
		}
	}
	return true
}

func isNumericStr(s string) bool {
	for i := 0; i < len(s); i++ {
		if !(s[i] == ' ' || '0' <= s[i] && s[i] <= '9') {
			return false
		}
	}
	return true
}

func oidValid(o []int) (valid bool, beyond bool) {
	if len(o) < 2 {
		return false, false
	}
	for _, a := range o {
		if a < 0 || a > math.MaxInt32 {
			beyond = true
		}
	}
	if beyond {
		return false, true
	}
	if o[0] > 2 || (o[0] < 2 && o[1] >= 40) {
		return false, false
	}
	if int64(o[0])*40+int64(o[1]) > math.MaxInt32 {
		return false, true
	}
	return true, false
}

func bitsConsistent(b zasn1.BitString) bool {
	if b.BitLength < 0 || len(b.Bytes) != (b.BitLength+7)/8 {
		return false
	}
	if pad := (8 - b.BitLength%8) % 8; pad > 0 && b.Bytes[len(b.Bytes)-1]&(1<<uint(pad)-1) != 0 {
		return false
	}
	return true
}

// classify returns inD (Marshal must succeed and the value must round-trip) and
// lim (non-empty: a documented limitation applies, the round trip is not promised).
func classify(t *tnode, v reflect.Value, o *opt) (inD bool, lim string) {
	inD = true
	merge := func(d bool, l string) {
		if !d {
			inD = false
		}
		if l != "" && lim == "" {
			lim = l
		}
	}
	switch {
	case t.leaf != nil:
		return classifyLeaf(t.leaf, v, o)
	case t.elem != nil:
		if o.omitempty && !o.optional && v.Len() == 0 {
			merge(true, "omitempty without optional on an empty slice (omitempty is a Marshal-only option)")
		}
		for i := 0; i < v.Len(); i++ {
			merge(classify(t.elem, v.Index(i), emptyOpt))
		}
		return
	}
	for i, f := range t.fields {
		merge(classify(f.t, v.Field(i), f.opt))
	}
	if o.optional && !v.IsZero() && !reflect.DeepEqual(v.Interface(), reflect.Zero(v.Type()).Interface()) &&
		canon(v, false) == canon(reflect.Zero(v.Type()), false) {
		// e.g. struct{ F []byte `optional,omitempty` }{[]byte{}}: equivalent to the zero
		// value under nil==empty but not Go-zero. Whether an OPTIONAL field is
		// absent is decided by Go zero-ness ("what Go has traditionally done");
		// absent == zero, so presence may legitimately change after a round trip.
		merge(true, "OPTIONAL struct that equals its zero value only up to nil==empty (presence follows Go zero-ness)")
	}
	return
}

func classifyLeaf(k *kind, v reflect.Value, o *opt) (bool, string) {
	switch k.cls {
	case kInt, kBool, kFlag:
		return true, ""
	case kEnum:
		if n := v.Int(); n != int64(int32(n)) {
			return false, "Enumerated outside int32"
		}
		return true, ""
	case kBig:
		if v.IsNil() {
			return o.optional, "" // nil is only meaningful as "absent"
		}
		return true, ""
	case kString:
		return classifyString(v.String(), o)
	case kBytes:
		if o.omitempty && !o.optional && v.Len() == 0 {
			return true, "omitempty without optional on an empty slice (omitempty is a Marshal-only option)"
		}
		return true, ""
	case kOID:
		oid := v.Interface().(zasn1.ObjectIdentifier)
		if oid == nil {
			return o.optional, ""
		}
		valid, beyond := oidValid(oid)
		if beyond {
			return false, "OBJECT IDENTIFIER arc outside 0..2^31-1"
		}
		return valid, ""
	case kBits:
		if !bitsConsistent(v.Interface().(zasn1.BitString)) {
			return false, "BitString whose Bytes/BitLength/padding are inconsistent"
		}
		return true, ""
	case kTime:
		tm := v.Interface().(time.Time)
		if tm.IsZero() && o.optional {
			return true, ""
		}
		_, off := tm.Zone()
		if off%60 != 0 {
			return false, "time zone offset with a seconds part"
		}
		y := tm.Year()
		if y < 1 || y > 9999 {
			return false, ""
		}
		if o.implicit() && o.timeType != 24 && (y < 1950 || y >= 2050) {
			// time.Time stands for CHOICE{UTCTime, GeneralizedTime}; Marshal picks
			// GeneralizedTime for this year, an IMPLICIT tag erases which one was
			// used and the options do not say: inherently undecodable (the same
			// limitation the package documents for strings; upstream Go documents
			// it for times and offers "generalized").
			return o.timeType == 0, "IMPLICIT-tagged time.Time without 'generalized' whose year needs GeneralizedTime (the tag erases the UTCTime/GeneralizedTime choice)"
		}
		if o.timeType == 23 && (y < 1950 || y >= 2050) {
			return false, "" // not a UTCTime value; Marshal falls back to GeneralizedTime, which must then round-trip
		}
		// Non-UTC zones are not promised by the documentation: Marshal may
		// reject them; if it accepts them the instant must survive.
		return off == 0, ""
	case kRaw:
		rv := v.Interface().(zasn1.RawValue)
		if len(rv.FullBytes) != 0 {
			if walkDER(rv.FullBytes, walkCfg{lenient: true, single: true}) != "" {
				return false, "RawValue.FullBytes is not one well-formed element"
			}
			fieldsZero := rv.Class == 0 && rv.Tag == 0 && !rv.IsCompound && len(rv.Bytes) == 0
			if !fieldsZero && string(rawTLV(rv.Class, rv.Tag, rv.IsCompound, rv.Bytes)) != string(rv.FullBytes) {
				return false, "RawValue with inconsistent fields"
			}
			return true, ""
		}
		if rv.IsCompound && walkDER(rv.Bytes, walkCfg{lenient: true}) != "" {
			return false, "RawValue compound content is not well-formed"
		}
		return true, ""
	case kStruct: // S1
		s := v.Interface().(S1)
		return utf8.ValidString(s.B), ""
	case kSlice:
		lim := ""
		if o.omitempty && !o.optional && v.Len() == 0 {
			lim = "omitempty without optional on an empty slice (omitempty is a Marshal-only option)"
		}
		ok := true
		var chk func(v reflect.Value)
		chk = func(v reflect.Value) {
			switch v.Kind() {
			case reflect.Slice:
				for i := 0; i < v.Len(); i++ {
					chk(v.Index(i))
				}
			case reflect.Struct:
				chk(v.Field(1))
			case reflect.String:
				if !utf8.ValidString(v.String()) {
					ok = false
				}
			}
		}
		chk(v)
		return ok, lim
	}
	panic("classifyLeaf: unknown class")
}

func classifyString(s string, o *opt) (bool, string) {
	if !utf8.ValidString(s) {
		// Not a character string at all. Marshal validates it except under
		// "utf8" (where it is copied as is): garbage in, garbage out.
		return false, "string is not valid UTF-8"
	}
	switch o.strType {
	case 19:
		return x680Printable(s), ""
	case 22:
		return isASCII(s), ""
	case 18:
		return isNumericStr(s), ""
	case 12:
		return true, ""
	}
	// IMPLICIT tag, no string-type option: documented to decode as
	// PrintableString, so every PrintableString value is inside the domain and
	// must round-trip; only values that need another string type are exempt.
	if o.implicit() && !x680Printable(s) {
		// Unmarshal doc: "When decoding an ASN.1 value with an IMPLICIT tag
		// into a string field, Unmarshal will default to a PrintableString,
		// which doesn't support characters such as '@' and '&'. To force
		// other encodings, use [ia5/numeric/utf8]".
		return true, "IMPLICIT-tagged string without a string-type option holding non-PrintableString characters (documented)"
	}
	return true, ""
}

// rawTLV is the harness's own identifier+length encoder (X.690 §8.1).
func rawTLV(class, tag int, compound bool, content []byte) []byte {
	b := byte(class&3) << 6
	if compound {
		b |= 0x20
	}
	var out []byte
	if tag < 31 {
		out = append(out, b|byte(tag))
	} else {
		out = append(out, b|0x1f)
		var tmp []byte
		for n := tag; ; n >>= 7 {
			tmp = append([]byte{byte(n & 0x7f)}, tmp...)
			if n>>7 == 0 {
				break
			}
		}
		for i := 0; i < len(tmp)-1; i++ {
			tmp[i] |= 0x80
		}
		out = append(out, tmp...)
	}
	n := len(content)
	if n < 128 {
		out = append(out, byte(n))
	} else {
		lb := big.NewInt(int64(n)).Bytes()
		out = append(out, 0x80|byte(len(lb)))
		out = append(out, lb...)
	}
	return append(out, content...)
}
