// C18 — ASN.1 marshalling round-trips and is idempotent.
//
// Engine E2 (generated types): Go struct types are constructed at run time with
// reflect.StructOf over (field kind x tag option); the type space and, for each
// type, the value space (per-kind alphabets) are enumerated completely. Oracle:
// Marshal error => value outside the documented domain; else strict Unmarshal
// consumes all bytes and yields an equal value (modulo the statement's
// equivalences) and Marshal(decoded) reproduces the bytes; the bytes are checked
// by an independent DER walker (walker.go: well-formedness; typed.go: the element
// each component must be, identifier and content octets computed by the harness
// from the field options and the value). Go's standard encoding/asn1 is run on the
// same bytes/values: for values inside the domain its Marshal must give the same
// bytes and its Unmarshal the same value (verdicts, two pinned exceptions).
package main

import (
	"encoding/hex"
	"encoding/json"
	"fmt"
	"runtime/debug"
	"sort"
	"strings"
	"sync"

	zasn1 "github.com/zmap/zcrypto/encoding/asn1"
	"verifmc/internal/ev"
	"verifmc/internal/nohb"
)

// coreOpts: the options paired with each other in 2-field structs in the quick tier.
var coreOpts = []string{"", "optional", "explicit,tag:0", "tag:1", "application,tag:2", "private,tag:3",
	"explicit,application,tag:4", "explicit,private,tag:3", "optional,explicit,tag:0", "optional,tag:1", "tag:31",
	"set", "omitempty", "optional,omitempty", "optional,default:5", "ia5", "printable", "utf8", "numeric", "utf8,tag:1",
	"utc", "generalized", "generalized,tag:1"}

type witness struct {
	Type     tjson    `json:"type"`
	Value    vnode    `json:"value"`
	GoType   string   `json:"go_type"`
	GoValue  string   `json:"go_value"`
	Bytes    string   `json:"marshal_hex,omitempty"`
	Detail   string   `json:"detail"`
	Stdlib   []string `json:"stdlib_on_same_input,omitempty"`
	FoundIn  string   `json:"found_in,omitempty"`
	FoundVal string   `json:"found_value,omitempty"`
}

type cand struct {
	t *tnode
	v *vnode
}

func failHead(s string) string {
	if i := strings.Index(s, " ["); i >= 0 {
		return s[:i]
	}
	return s
}

// cached struct nodes for the shrinker (leaf fields only; keyed by kind+option).
var nodeCache sync.Map

func cachedStruct(fs []tfield) *tnode {
	var kb strings.Builder
	for _, f := range fs {
		if f.t.leaf == nil {
			return structNode(fs)
		}
		kb.WriteString(f.t.leaf.name + "`" + f.opt.s + "`;")
	}
	if v, ok := nodeCache.Load(kb.String()); ok {
		return v.(*tnode)
	}
	t := structNode(fs)
	nodeCache.Store(kb.String(), t)
	return t
}

func replaceField(t *tnode, i int, f tfield) *tnode {
	fs := append([]tfield(nil), t.fields...)
	fs[i] = f
	return cachedStruct(fs)
}

func copyV(v *vnode) vnode {
	c := vnode{Idx: v.Idx, Nil: v.Nil}
	if v.Kids != nil {
		c.Kids = make([]vnode, len(v.Kids))
		for i := range v.Kids {
			c.Kids[i] = copyV(&v.Kids[i])
		}
	}
	return c
}

func withKid(vn *vnode, i int, k vnode) *vnode {
	nv := &vnode{Kids: append([]vnode(nil), vn.Kids...)}
	nv.Kids[i] = k
	return nv
}

// candidates yields, lazily and in a fixed order, the one-step simplifications of a case.
func candidates(t *tnode, vn *vnode, try func(cand) bool) {
	if len(t.fields) > 1 {
		for i, f := range t.fields {
			if try(cand{cachedStruct([]tfield{f}), &vnode{Kids: []vnode{vn.Kids[i]}}}) {
				return
			}
		}
	}
	if len(t.fields) > 2 {
		for i := range t.fields {
			fs := append(append([]tfield(nil), t.fields[:i]...), t.fields[i+1:]...)
			ks := append(append([]vnode(nil), vn.Kids[:i]...), vn.Kids[i+1:]...)
			if try(cand{cachedStruct(fs), &vnode{Kids: ks}}) {
				return
			}
		}
	}
	if len(t.fields) == 1 {
		f := t.fields[0]
		kv := &vn.Kids[0]
		if f.t.fields != nil && try(cand{f.t, kv}) {
			return
		}
		if f.t.elem != nil && f.t.elem.fields != nil {
			for i := range kv.Kids {
				if try(cand{f.t.elem, &kv.Kids[i]}) {
					return
				}
			}
		}
	}
	intK := kindByName["int"]
	for i, f := range t.fields {
		toks := strings.Split(f.opt.s, ",")
		if f.opt.s == "" {
			toks = nil
		}
		tryOpt := func(rest []string, allValues bool) bool {
			nt := replaceField(t, i, tfield{parseOpt(strings.Join(rest, ",")), f.t})
			if try(cand{nt, vn}) {
				return true
			}
			if allValues && f.t.leaf != nil {
				for idx := range f.t.leaf.vals {
					if idx != vn.Kids[i].Idx && try(cand{nt, withKid(vn, i, vnode{Idx: idx})}) {
						return true
					}
				}
			}
			return false
		}
		for j, tok := range toks {
			if strings.HasPrefix(tok, "tag:") {
				continue // tag numbers go together with explicit/application/private
			}
			rest := append(append([]string(nil), toks[:j]...), toks[j+1:]...)
			if (tok == "application" || tok == "private") && !f.opt.hasTag {
				continue
			}
			if tryOpt(rest, strings.HasPrefix(tok, "default:")) {
				return
			}
		}
		if f.opt.hasTag {
			// remove the tagging altogether
			var rest []string
			for _, tok := range toks {
				if tok != "explicit" && tok != "application" && tok != "private" && !strings.HasPrefix(tok, "tag:") {
					rest = append(rest, tok)
				}
			}
			if tryOpt(rest, false) {
				return
			}
		}
		if f.opt.hasTag && !f.opt.explicit && f.opt.class == 2 {
			var rest []string
			for _, tok := range toks {
				if !strings.HasPrefix(tok, "tag:") {
					rest = append(rest, tok)
				}
			}
			if tryOpt(rest, false) {
				return
			}
		}
		isUnivNum := false
		for _, u := range univNums {
			isUnivNum = isUnivNum || (f.opt.hasTag && f.opt.tag == u)
		}
		if len(toks) >= 2 {
			// token order: move to the lexicographically smallest order that fails the same way, so that
			// all orders hit by one defect are reported under one type
			perms := permutations(toks)
			strs := make([]string, len(perms))
			for k, pm := range perms {
				strs[k] = strings.Join(pm, ",")
			}
			sort.Strings(strs)
			for _, ps := range strs {
				if ps >= f.opt.s {
					break
				}
				if tryOpt(strings.Split(ps, ","), false) {
					return
				}
			}
		}
		if f.opt.hasTag && f.opt.tag != 1 && (f.opt.tag >= 31 || isUnivNum) {
			var rest []string
			for _, tok := range toks {
				if strings.HasPrefix(tok, "tag:") {
					tok = "tag:1"
				}
				rest = append(rest, tok)
			}
			if tryOpt(rest, false) {
				return
			}
		}
		// canonical kinds: int (non-empty primitive content), []byte (possibly empty content)
		cks := []*kind{intK, kindByName["[]byte"]}
		if f.t.leaf != nil && f.t.leaf.cls == kSlice {
			// slices: the plain int slice of the same flavour (SET-named or not)
			cks = append(cks, kindByName[map[bool]string{true: "IntSET", false: "[]int"}[f.t.leaf.set]])
		}
		for _, ck := range cks {
			if f.t.leaf == nil || f.t.leaf == intK || f.t.leaf == ck {
				continue
			}
			nt := replaceField(t, i, tfield{f.opt, leafNode(ck)})
			for idx := range ck.vals {
				if try(cand{nt, withKid(vn, i, vnode{Idx: idx})}) {
					return
				}
			}
		}
	}
}

// shrink: greedy deterministic reduction of a failing case to a smaller one of
// the same failure class inside the domain; only used to name the violation.
func shrink(t *tnode, vn *vnode, r result) (*tnode, *vnode, result) {
	head := failHead(r.fail)
	cross := strings.Contains(head, "Go's encoding/asn1") // a verdict of the second oracle is only reproduced with it
	for iter := 0; iter < 64; iter++ {
		moved := false
		candidates(t, vn, func(c cand) bool {
			if !typeOK(c.t) {
				return false
			}
			if cr := runCase(c.t, c.v, cross); cr.fail != "" && failHead(cr.fail) == head {
				t, vn, r, moved = c.t, c.v, cr, true
				return true
			}
			return false
		})
		if !moved {
			break
		}
	}
	return t, vn, r
}

var shrinkMemo sync.Map // describe(type)|failHead -> signature

func report(c *ev.Ctx, t *tnode, vn *vnode, r result) {
	key := describe(t) + "|" + failHead(r.fail)
	if sig, ok := shrinkMemo.Load(key); ok {
		c.Violation(sig.(string), nil) // counts an occurrence of a recorded signature
		return
	}
	st, sv, sr := shrink(t, vn, r)
	sig := sr.fail + " @ " + describe(st) // no " :: " inside: known_findings.txt uses it as separator
	w := witness{Type: toJSON(st), Value: copyV(sv), GoType: goType(st), GoValue: vlabel(st, sv),
		Bytes: hex.EncodeToString(sr.bytes), Detail: sr.detail}
	if sr.bytes != nil {
		w.Stdlib, _ = crossCheck(st, sv, sr.bytes, canon(mkval(st, sv, flZ), false), false, true)
	}
	if describe(st) != describe(t) {
		w.FoundIn, w.FoundVal = goType(t), vlabel(t, vn)
	}
	c.Violation(sig, w)
	shrinkMemo.Store(key, sig)
}

// ---- enumeration ----------------------------------------------------------

type job struct {
	shape   int // 1,2,3 flat; 4 nested struct; 5 slice of struct
	a, b, d int // spec indices
	o       int // outer option index (shapes 4,5)
	tail    bool
	p       *pjob // shape 6: a prebuilt type of perm.go (permuted option order / two optionals by tag number)
}

type acc struct {
	hist, notes                               ev.Hist
	cases, calls, full, nonTriv, types, evals int64
}

func alphabet(k *kind, level int) []int {
	var ix []int
	for i, v := range k.vals {
		if v.lv <= level {
			ix = append(ix, i)
		}
	}
	return ix
}

func main() {
	if nohb.IsWorker() {
		nohb.WorkerMain(reentrantOps(), reentrantRepoDir())
		return
	}
	zasn1.AllowPermissiveParsing = false // strict mode, set once
	debug.SetGCPercent(400)              // the run-time constructed types are permanent heap; collect less often
	initKinds()
	initOpts()
	initLeaves()
	ev.Main("C18", "model_checking", func(c *ev.Ctx) {
		c.Rule("types = reflect.StructOf over (kind x option) field specs passing the documented-domain predicate: all 1- and 2-field structs, 3-field structs over a reduced grid, struct-in-struct and slice-of-struct over every 1-field inner type; values = full product of per-kind alphabets (<=2 fields; the string alphabet's extended level, used by every 1-field struct under every option incl. ia5/printable/numeric/utf8, is built systematically: per UTF-8 length class (2, 3, 4 bytes) one rune whose low byte (rune&0xff) is a PrintableString character and one whose low byte is not, alone and mixed with ASCII, U+0080, U+00FF, U+0100, U+10FFFF, every edge character of the PrintableString set alone (A Z a z 0 9 space and each punctuation character) and 16 excluded ASCII characters alone (* @ & _ ! \" # $ % ; < > [ ` { ~)), <=2 deviations from a baseline (3 fields); a case is non-trivial when Marshal succeeded, no documented limitation applied and the encoding is not the empty SEQUENCE. Verdicts per case: Marshal succeeds on the domain; its output is well-formed DER (walker), IS the encoding of the value under the declared type (typed walker: class, tag number, constructed bit and content octets of every component, EXPLICIT wrappers and IMPLICIT-tagged contents included, expected identifier computed by the harness from the field options) and equals Go's encoding/asn1.Marshal of the same value/type byte for byte; strict Unmarshal consumes everything and yields an equal value; re-Marshal reproduces the bytes; Go's encoding/asn1.Unmarshal reads the bytes as the same value. Option-token ORDER (perm.go): every option set of the alphabet with >=2 tokens is additionally written in EVERY other permutation of its tokens (2 tokens: 1, 3: 5, 4: 23 further orders) on 1-field structs of every kind (extended alphabets), on 2-field structs with an int successor (int, string), and as the outer option of the nested shapes; the expectation (typed walker) does not depend on the order. Tag NUMBER: structs with two OPTIONAL members of one kind that differ only in the tag number, per class {context, application, private} x {IMPLICIT, EXPLICIT} x number pairs {(0,1),(1,0),(1,2),(3,0),(0,3)} x every permutation of either member's tokens x the full value product (quick: 9 kinds, thorough: all), which includes earlier-absent/later-present (counted), where a wrong tag number changes the decoded value")
		c.Assume(
			"asn1.AllowPermissiveParsing=false for the whole process",
			"domain predicate (domain.go): RawValue only with ''/optional; Flag only on optional fields; set on structs/slices; omitempty on slices; default only with optional on integers; string/time type options on strings/times",
			"types whose OPTIONAL field shares a possible tag with a following field (up to the next mandatory one) are inherently ambiguous, excluded and counted; a Go string may carry any character-string tag, time.Time UTCTime|GeneralizedTime, RawValue any tag",
			"limitations exempt from the round trip (still must not panic): IMPLICIT tag on a Go type that stands for a CHOICE when the options do not fix the alternative (string without string-type option holding non-PrintableString characters: documented; time.Time without 'generalized' whose year needs GeneralizedTime: same reason); omitempty without optional on an empty slice; OPTIONAL struct equal to zero only up to nil==empty; strings that are not valid UTF-8; inconsistent BitString / RawValue; OID arcs or Enumerated beyond int32; time zone offsets with seconds",
			"equalities: SET OF up to order, times as instants truncated to the second, nil==empty slices, absent OPTIONAL==zero value, RawValue by the element it denotes",
			"typed walker (typed.go): where the documentation leaves a choice every alternative is accepted: a string without string-type option is PrintableString exactly when every character is in the X.680 PrintableString set ('*' and '&' are not) and UTF8String otherwise (Marshal's rule in makeField, identical in Go's encoding/asn1), time.Time without option UTCTime (1950..2049) or GeneralizedTime, a component that equals its zero value/DEFAULT (OPTIONAL) or is an empty omitempty slice may be absent or present",
			"Go's encoding/asn1 (the version this binary is built with) as a second oracle for values inside the domain: Marshal must give identical bytes (the fork documents no deliberate Marshal difference; 0 differences on the unchanged tree); Unmarshal must return the same value, except the two rejection classes where the fork is deliberately more capable than the standard library (repaired defects da54108 / 5a1db0a, still present upstream): 'explicitly tagged member didn't match' on types with an EXPLICIT PRIVATE tag, 'explicit tag has no child' on types with an OPTIONAL EXPLICIT component, and (the first defect on an OPTIONAL component: the standard library takes the PRIVATE element for another tag and reads the component as absent) a different decoded value on types with an OPTIONAL EXPLICIT PRIVATE component; outside the domain both comparisons stay observations",
		)

		if c.Replay != nil {
			var w witness
			if err := json.Unmarshal(c.Replay, &w); err != nil {
				c.Broken("bad witness: %v", err)
			}
			t, err := fromJSON(w.Type)
			if err != nil {
				c.Broken("bad witness type: %v", err)
			}
			r := runCase(t, &w.Value, true)
			c.States.Add(1)
			c.Transitions.Add(int64(r.calls))
			fmt.Printf("replay: %s value %s -> bytes %x fail=%q detail=%s notes=%v\n", goType(t), vlabel(t, &w.Value), r.bytes, r.fail, r.detail, r.notes)
			if r.fail != "" {
				report(c, t, &w.Value, r)
			}
			return
		}

		quick := c.Quick()
		// alphabet level per shape (1 core, 2 standard, 3 extended)
		lv1, lv2, lv3, lvN := 3, ev.Pick(c, 1, 3), ev.Pick(c, 1, 2), ev.Pick(c, 2, 3)
		for kn, ls := range levelOne {
			for _, l := range ls {
				found := false
				for _, v := range kindByName[kn].vals {
					found = found || v.label == l
				}
				if !found {
					c.Broken("levelOne: kind %s has no value %q", kn, l)
				}
			}
		}
		// field specs = K x O filtered by pairOK
		var specs []tfield
		exclPairs := map[string]int64{}
		for _, k := range kinds {
			for _, os := range optStrings {
				o := getOpt(os)
				if ok, why := pairOK(leafNode(k), o); !ok {
					exclPairs[why]++
					continue
				}
				specs = append(specs, tfield{o, leafNode(k)})
			}
		}
		nS := len(specs)
		// reduced grid for 3-field structs
		var grid []int
		gridKinds := map[string]bool{"int": true, "string": true, "[]byte": true, "time.Time": true, "[]int": true}
		gridOpts := map[string]bool{"": true, "optional": true, "optional,explicit,tag:0": true, "optional,tag:1": true}
		if !quick {
			gridKinds["bool"], gridKinds["ObjectIdentifier"], gridKinds["S1"] = true, true, true
			gridOpts["explicit,tag:0"], gridOpts["optional,application,tag:2"] = true, true
		}
		for i, s := range specs {
			if gridKinds[s.t.leaf.name] && gridOpts[s.opt.s] {
				grid = append(grid, i)
			}
		}
		outerStruct := []string{"", "optional", "explicit,tag:0", "tag:1", "set", "optional,explicit,tag:0", "private,tag:3"}
		outerSlice := []string{"", "set", "tag:1", "optional,omitempty", "omitempty", "explicit,tag:0"}

		// 2-field structs: every ordered pair of specs; the quick tier pairs the
		// specs of the core option list only (all options in the thorough tier).
		core := map[string]bool{}
		for _, o := range coreOpts {
			if getOpt(o) == nil {
				c.Broken("core option %q not in the option alphabet", o)
			}
			core[o] = true
		}
		// The universal-number tag options (univOpt) are paired, in both orders,
		// with the untagged specs ("" and "optional") of every kind: quick tier
		// context class x "" partners, thorough tier all classes x both partners.
		var pairSpecs, univSpecs, partnerSpecs []int
		for i, sp := range specs {
			cl, isUniv := univOpt[sp.opt.s]
			switch {
			case isUniv:
				if !quick || cl == 2 {
					univSpecs = append(univSpecs, i)
				}
			case !quick || core[sp.opt.s]:
				pairSpecs = append(pairSpecs, i)
			}
			if sp.opt.s == "" || (sp.opt.s == "optional" && (!quick || sp.t.leaf.cls == kFlag)) {
				partnerSpecs = append(partnerSpecs, i)
			}
		}
		c.Set("two_field_specs", len(pairSpecs))
		c.Set("two_field_universal_number_specs", len(univSpecs))
		c.Set("two_field_partner_specs", len(partnerSpecs))
		var jobs []job
		for a := 0; a < nS; a++ {
			jobs = append(jobs, job{shape: 1, a: a})
		}
		for _, a := range pairSpecs {
			for _, b := range pairSpecs {
				jobs = append(jobs, job{shape: 2, a: a, b: b})
			}
		}
		for _, a := range univSpecs {
			for _, b := range partnerSpecs {
				jobs = append(jobs, job{shape: 2, a: a, b: b}, job{shape: 2, a: b, b: a})
			}
		}
		for a := 0; a < nS; a++ {
			if cl, isUniv := univOpt[specs[a].opt.s]; isUniv && quick && cl != 2 {
				continue // nested shapes: context class only in the quick tier
			}
			for o := range outerStruct {
				jobs = append(jobs, job{shape: 4, a: a, o: o}, job{shape: 4, a: a, o: o, tail: true})
			}
			for o := range outerSlice {
				jobs = append(jobs, job{shape: 5, a: a, o: o})
			}
		}
		for _, a := range grid {
			for _, b := range grid {
				for _, d := range grid {
					jobs = append(jobs, job{shape: 3, a: a, b: b, d: d})
				}
			}
		}
		pjobs, pinfo := permJobs(quick, outerStruct, outerSlice)
		for i := range pjobs {
			jobs = append(jobs, job{shape: 6, p: &pjobs[i]})
		}
		c.Set("option_order_and_tag_number_types", pinfo)
		c.Set("field_specs", nS)
		c.Set("kinds", len(kinds))
		c.Set("options", len(optStrings))
		c.Set("three_field_grid_specs", len(grid))

		W := c.Workers()
		accs := make([]*acc, W)
		for i := range accs {
			accs[i] = &acc{hist: ev.Hist{}, notes: ev.Hist{}}
		}
		var mu sync.Mutex
		exclAmbig := map[string]int64{}
		typesByShape := map[string]int64{}
		noteSamples := map[string]string{}
		shapeName := map[int]string{1: "1-field", 2: "2-field", 3: "3-field", 4: "struct-in-struct", 5: "slice-of-struct"}
		intLeaf := tfield{emptyOpt, leafNode(kindByName["int"])}

		eval := func(a *acc, t *tnode, vn *vnode) {
			r := runCase(t, vn, true)
			a.cases++
			a.evals++
			a.calls += int64(r.calls)
			if r.full {
				a.full++
			}
			if r.nonTriv {
				a.nonTriv++
			}
			if r.fail != "" {
				a.hist["VIOLATION: "+failHead(r.fail)]++
				report(c, t, vn, r)
				return
			}
			a.hist[r.outcome]++
			for _, n := range r.notes {
				a.notes[n]++
				if !strings.HasSuffix(n, "same value") && !strings.HasSuffix(n, "identical bytes") {
					mu.Lock()
					if _, ok := noteSamples[n]; !ok {
						noteSamples[n] = fmt.Sprintf("%s value %s bytes %x", goType(t), vlabel(t, vn), r.bytes)
					}
					mu.Unlock()
				}
			}
			if r.nonTriv && len(t.fields) >= 2 && a.cases%9973 == 1 && c.WantSample() {
				c.Sample(map[string]any{"type": goType(t), "value": vlabel(t, vn), "der": hex.EncodeToString(r.bytes), "outcome": r.outcome})
			}
		}

		done := c.Parallel(len(jobs), func(w, i int) {
			a := accs[w]
			j := jobs[i]
			var t *tnode
			switch j.shape {
			case 1:
				t = structNode([]tfield{specs[j.a]})
			case 2:
				t = structNode([]tfield{specs[j.a], specs[j.b]})
			case 3:
				t = structNode([]tfield{specs[j.a], specs[j.b], specs[j.d]})
			case 6:
				t = j.p.t
			case 4, 5:
				inner := structNode([]tfield{specs[j.a]})
				var f tfield
				if j.shape == 4 {
					f = tfield{getOpt(outerStruct[j.o]), inner}
				} else {
					f = tfield{getOpt(outerSlice[j.o]), sliceNode(inner)}
				}
				if ok, _ := pairOK(f.t, f.opt); !ok {
					return
				}
				if j.tail {
					t = structNode([]tfield{f, intLeaf})
				} else {
					t = structNode([]tfield{f})
				}
			}
			sname := shapeName[j.shape]
			if j.shape == 6 {
				sname = j.p.name
			}
			if !typeOK(t) {
				mu.Lock()
				exclAmbig[sname]++
				mu.Unlock()
				return
			}
			a.types++
			mu.Lock()
			typesByShape[sname]++
			mu.Unlock()
			switch j.shape {
			case 1, 2:
				al := make([][]int, len(t.fields))
				for fi, f := range t.fields {
					al[fi] = alphabet(f.t.leaf, map[int]int{1: lv1, 2: lv2}[j.shape])
				}
				vn := &vnode{Kids: make([]vnode, len(t.fields))}
				var rec func(fi int)
				rec = func(fi int) {
					if fi == len(t.fields) {
						eval(a, t, vn)
						return
					}
					for _, ix := range al[fi] {
						vn.Kids[fi] = vnode{Idx: ix}
						rec(fi + 1)
					}
				}
				rec(0)
			case 3:
				// all assignments with at most 2 fields off the baseline
				al := make([][]int, 3)
				base := make([]int, 3)
				for fi, f := range t.fields {
					al[fi] = alphabet(f.t.leaf, lv3)
					base[fi] = f.t.leaf.dflt
				}
				vn := &vnode{Kids: make([]vnode, 3)}
				set := func(x, y, z int) {
					vn.Kids[0], vn.Kids[1], vn.Kids[2] = vnode{Idx: x}, vnode{Idx: y}, vnode{Idx: z}
					eval(a, t, vn)
				}
				set(base[0], base[1], base[2])
				for p := 0; p < 3; p++ {
					for _, x := range al[p] {
						if x == base[p] {
							continue
						}
						v := append([]int(nil), base...)
						v[p] = x
						set(v[0], v[1], v[2])
						for q := p + 1; q < 3; q++ {
							for _, y := range al[q] {
								if y == base[q] {
									continue
								}
								v2 := append([]int(nil), v...)
								v2[q] = y
								set(v2[0], v2[1], v2[2])
							}
						}
					}
				}
			case 6:
				vals := valuesOf(t, j.p.level)
				for i := range vals {
					if j.p.name == shapePerm4 && earlierAbsentLaterPresent(t, &vals[i]) {
						a.hist["two optionals by tag number: earlier absent, later present"]++
					}
					eval(a, t, &vals[i])
				}
			case 4:
				for _, ix := range alphabet(specs[j.a].t.leaf, lvN) {
					vn := &vnode{Kids: []vnode{{Kids: []vnode{{Idx: ix}}}}}
					if j.tail {
						vn.Kids = append(vn.Kids, vnode{Idx: 1})
					}
					eval(a, t, vn)
				}
			case 5:
				al := alphabet(specs[j.a].t.leaf, lvN)
				el := func(ix int) vnode { return vnode{Kids: []vnode{{Idx: ix}}} }
				eval(a, t, &vnode{Kids: []vnode{{Nil: true}}})
				eval(a, t, &vnode{Kids: []vnode{{Kids: []vnode{}}}})
				for _, x := range al {
					eval(a, t, &vnode{Kids: []vnode{{Kids: []vnode{el(x)}}}})
					for _, y := range al {
						if x != y {
							eval(a, t, &vnode{Kids: []vnode{{Kids: []vnode{el(x), el(y)}}}})
						}
					}
				}
				if len(al) >= 3 {
					eval(a, t, &vnode{Kids: []vnode{{Kids: []vnode{el(al[2]), el(al[1]), el(al[0]), el(al[1])}}}})
				}
			}
		})
		if !done {
			c.Incomplete("time budget hit before all generated types were evaluated (jobs are ordered 1-field, 2-field, nested, 3-field)")
		}
		notes := ev.Hist{}
		for _, a := range accs {
			c.Merge(a.hist)
			for k, v := range a.notes {
				notes[k] += v
			}
			c.States.Add(a.cases)
			c.Transitions.Add(a.calls)
			c.Traces.Add(a.full)
			c.Evaluations.Add(a.evals)
			c.Distinct.Add(a.nonTriv)
		}
		c.Set("types_by_shape", typesByShape)
		c.Set("types_excluded_ambiguous_optional", exclAmbig)
		c.Set("kind_option_pairs_excluded", exclPairs)
		c.Set("stdlib_crosscheck", notes)
		c.Set("stdlib_crosscheck_samples", noteSamples)
		var al []string
		for _, k := range kinds {
			al = append(al, fmt.Sprintf("%s:%d/%d/%d", k.name, len(alphabet(k, 1)), len(alphabet(k, 2)), len(alphabet(k, 3))))
		}
		sort.Strings(al)
		c.Set("alphabet_sizes_level1/2/3", al)
		reentrantPhase(c)
		c.Set("alphabet_level_by_shape", map[string]int{"1-field": lv1, "2-field": lv2, "3-field": lv3, "nested": lvN})
	})
}
