// C15 — browser revocation sets parse faithfully and decide membership exactly.
//
// Engine E2 (model-based): every small revocation-set model (<=3 issuers x <=3
// serials, <=2 blocked keys) is encoded by encoders written here from the format
// descriptions (Chrome CRLSet, Mozilla OneCRL JSON, Microsoft serialized
// certificate store), parsed by the zcrypto package, compared with the model,
// and then queried with every certificate of a fixed pool; the expected answer
// is model membership by exactly the key the statement names.
package main

import (
	"bytes"
	"crypto/ecdsa"
	"crypto/ed25519"
	"crypto/rsa"
	"crypto/sha1"
	"crypto/sha256"
	stdx509 "crypto/x509"
	stdasn1 "encoding/asn1"
	"encoding/base64"
	"encoding/binary"
	"encoding/hex"
	"encoding/json"
	"fmt"
	"math/big"
	"os"
	"sort"
	"strings"
	"sync/atomic"
	"time"

	"github.com/zmap/zcrypto/x509"
	"github.com/zmap/zcrypto/x509/pkix"
	"github.com/zmap/zcrypto/x509/revocation/google"
	"github.com/zmap/zcrypto/x509/revocation/microsoft"
	"github.com/zmap/zcrypto/x509/revocation/mozilla"
	"verifmc/internal/ev"
	"verifmc/internal/fx"
	"verifmc/internal/nohb"
)

// ---------------------------------------------------------------- alphabets and fixtures

// serial alphabet of the models. 255 and 128 need a leading zero byte in DER.
var serialVals = []*big.Int{big.NewInt(1), big.NewInt(255), big.NewInt(256), new(big.Int).Lsh(big.NewInt(1), 64), big.NewInt(128)}

// crlsetSerialBytes: CRLSet serials are length-prefixed big-endian byte strings;
// 255 is written minimally (ff), 128 in its DER form with a leading zero (00 80).
var crlsetSerialBytes = [][]byte{{0x01}, {0xff}, {0x01, 0x00}, {1, 0, 0, 0, 0, 0, 0, 0, 0}, {0x00, 0x80}}

var unlistedSerial = big.NewInt(77)

// derIntContent is the content octets of a DER INTEGER (OneCRL serialNumber form).
func derIntContent(n *big.Int) []byte {
	b := n.Bytes()
	if len(b) == 0 {
		return []byte{0}
	}
	if b[0]&0x80 != 0 {
		b = append([]byte{0}, b...)
	}
	return b
}

type caSpec struct {
	id   string
	cn   string
	org  []string
	key  string
	slot int // model slot 0..2, or -1
	// look != "": the subject is ca3's name in another DER encoding (never a model issuer)
	look string
}

// rawName encodes Name ::= SEQUENCE OF SET OF SEQUENCE{type, value} with the
// standard library; tag selects the string type of every value (19
// PrintableString, 12 UTF8String).
type stdATV struct {
	Type  stdasn1.ObjectIdentifier
	Value stdasn1.RawValue
}
type stdRDNSET []stdATV

func rawName(tag int, atvs ...[2]string) []byte {
	oids := map[string]stdasn1.ObjectIdentifier{"CN": {2, 5, 4, 3}, "O": {2, 5, 4, 10}}
	var seq []stdRDNSET
	for _, a := range atvs {
		seq = append(seq, stdRDNSET{{Type: oids[a[0]], Value: stdasn1.RawValue{Tag: tag, Bytes: []byte(a[1])}}})
	}
	der, err := stdasn1.Marshal(seq)
	if err != nil {
		panic(err)
	}
	return der
}

var caSpecs = []caSpec{
	{"ca1", "Rev CA 1", nil, "c15-ca1", 0, ""},
	{"ca2", "Rev CA 2", []string{"Org"}, "c15-ca2", 1, ""},
	{"ca3", "Rev CA 1", []string{"Org"}, "c15-ca3", 2, ""}, // shares its CN with ca1, its O with ca2
	{"cax", "Unrelated CA", nil, "c15-cax", -1, ""},
	{"ca1b", "Rev CA 1", nil, "c15-ca1b", -1, ""},  // same name as ca1, other key
	{"ca1c", "Renamed CA", nil, "c15-ca1", -1, ""}, // same key as ca1, other name
	// ca3's name ("CN=Rev CA 1, O=Org", PrintableString values) in two other DER encodings, own keys
	{"ca3u", "Rev CA 1", []string{"Org"}, "c15-ca3u", -1, "string type UTF8String instead of PrintableString"},
	{"ca3r", "Rev CA 1", []string{"Org"}, "c15-ca3r", -1, "RDN order O,CN instead of CN,O"},
}

const lookSlot = 2 // the model slot (ca3) the look-alike names imitate

// qcert is one query certificate with the features the oracle needs, all read
// from the DER with the standard library (not with zcrypto).
type qcert struct {
	Name     string
	Z        *x509.Certificate // what is handed to Check
	DER      []byte
	Issuer   *qcert // issuing certificate (self for roots)
	IssuerDN string // raw DER, as string for comparisons
	SubjDN   string
	Serial   *big.Int
	SPKIHash [32]byte // SHA-256 of the certificate's own SubjectPublicKeyInfo
	IssCN    string
	IssOrg   []string
	IssHex   string // hex SHA-256 of the issuer's SPKI (set once all fixtures exist)
	KeyKind  string // own key, from crypto/x509
	Look     string // != "": the issuer name is ca3's in another DER encoding (how)
}

func (q *qcert) issuerSPKIHash() [32]byte { return q.Issuer.SPKIHash }

type fixtures struct {
	cas     map[string]*qcert
	slotCA  [3]*qcert
	leaf    map[string]*qcert // "<ca>/<serial idx>"
	queries []*qcert
	byName  map[string]*qcert
	// blocked-key pools
	crlsetBlocked [2][32]byte // SPKI hashes: ca1's key, the rsa leaf/root key
	// OneCRL subject/pubKeyHash pool: 0 = (Blocked RSA, rsa1024), 1 = (Blocked EC, p256), 2 = (Blocked RSA, rsa1024b): same
	// subject as 0 with another key (a re-keyed certificate), 3 = (Other EC, p256): same key as 1 under another subject
	// 4 = (Blocked Ed, Ed25519 key), 5 = (Blocked P384, P-384 key): key types whose SubjectPublicKeyInfo the
	// library has to re-marshal to the bytes in the certificate
	// 6 = (Blocked RSA, DSA key), 7 = (Blocked RSA, X25519 key), 8 = (Blocked RSA, key of an unknown algorithm): the
	// exotic-key query certificates' own SubjectPublicKeyInfo under the subject they share with 0 and 2
	oneBlocked [9]struct {
		subj []byte
		hash [32]byte
	}
}

// ---- query certificates whose key the PARSER accepts but which other code paths may not handle

type exoticKey struct {
	kind string
	spki []byte
}

type stdAlgID struct {
	Algorithm  stdasn1.ObjectIdentifier
	Parameters stdasn1.RawValue `asn1:"optional"`
}
type stdSPKI struct {
	Algorithm stdAlgID
	Key       stdasn1.BitString
}

func mustDER(v any) []byte {
	b, err := stdasn1.Marshal(v)
	if err != nil {
		panic(err)
	}
	return b
}

// exoticKeys: SubjectPublicKeyInfo values written from RFC 3279 (DSA), RFC 8410 (X25519) and with an OID from a
// private arc that no library knows.
func exoticKeys() []exoticKey {
	d := fx.DSA("dsa1024")
	dsaParams := mustDER(struct{ P, Q, G *big.Int }{d.P, d.Q, d.G})
	dsaY := mustDER(d.Y)
	x := sha256.Sum256([]byte("c15-x25519-public"))
	opaque := []byte{0x04, 0x05, 0xde, 0xad, 0xbe, 0xef, 0x01}
	return []exoticKey{
		{"DSA", mustDER(stdSPKI{stdAlgID{stdasn1.ObjectIdentifier{1, 2, 840, 10040, 4, 1}, stdasn1.RawValue{FullBytes: dsaParams}}, stdasn1.BitString{Bytes: dsaY, BitLength: 8 * len(dsaY)}})},
		{"X25519", mustDER(stdSPKI{stdAlgID{Algorithm: stdasn1.ObjectIdentifier{1, 3, 101, 110}}, stdasn1.BitString{Bytes: x[:], BitLength: 256}})},
		{"unknown-algorithm", mustDER(stdSPKI{stdAlgID{stdasn1.ObjectIdentifier{1, 3, 6, 1, 4, 1, 99999, 15, 1}, stdasn1.RawValue{FullBytes: []byte{5, 0}}}, stdasn1.BitString{Bytes: opaque, BitLength: 8 * len(opaque)}})},
	}
}

// spliceSPKI replaces the subjectPublicKeyInfo of a v3 certificate and signs the new TBSCertificate with the real
// (Ed25519) parent key.
func spliceSPKI(der, spki []byte, parent ed25519.PrivateKey) []byte {
	type certSeq struct {
		TBS, Alg stdasn1.RawValue
		Sig      stdasn1.BitString
	}
	var cs certSeq
	if rest, err := stdasn1.Unmarshal(der, &cs); err != nil || len(rest) != 0 {
		panic(fmt.Sprintf("spliceSPKI: %v", err))
	}
	var parts [][]byte
	for body := cs.TBS.Bytes; len(body) > 0; {
		var rv stdasn1.RawValue
		var err error
		if body, err = stdasn1.Unmarshal(body, &rv); err != nil {
			panic(err)
		}
		parts = append(parts, rv.FullBytes)
	}
	// [0] version, serialNumber, signature, issuer, validity, subject, subjectPublicKeyInfo, …
	if len(parts) < 7 || parts[0][0] != 0xa0 {
		panic("spliceSPKI: not a v3 TBSCertificate")
	}
	parts[6] = spki
	tbs := mustDER(stdasn1.RawValue{Class: 0, Tag: 16, IsCompound: true, Bytes: bytes.Join(parts, nil)})
	sig := ed25519.Sign(parent, tbs)
	return mustDER(certSeq{stdasn1.RawValue{FullBytes: tbs}, stdasn1.RawValue{FullBytes: cs.Alg.FullBytes}, stdasn1.BitString{Bytes: sig, BitLength: 8 * len(sig)}})
}

func mkQ(name string, c *fx.Cert, issuer *qcert) *qcert {
	std, err := stdx509.ParseCertificate(c.DER)
	if err != nil {
		panic(fmt.Sprintf("fixture %s: crypto/x509 cannot parse: %v", name, err))
	}
	q := &qcert{Name: name, Z: c.X, DER: c.DER, IssuerDN: string(std.RawIssuer), SubjDN: string(std.RawSubject),
		Serial: std.SerialNumber, SPKIHash: sha256.Sum256(std.RawSubjectPublicKeyInfo), IssCN: std.Issuer.CommonName, IssOrg: std.Issuer.Organization}
	switch k := std.PublicKey.(type) {
	case *rsa.PublicKey:
		q.KeyKind = fmt.Sprintf("RSA-%d", k.N.BitLen())
	case *ecdsa.PublicKey:
		q.KeyKind = "ECDSA " + k.Curve.Params().Name
	case ed25519.PublicKey:
		q.KeyKind = "Ed25519"
	default:
		q.KeyKind = "other"
	}
	q.Issuer = issuer
	if issuer == nil {
		q.Issuer = q
	}
	return q
}

func buildFixtures() *fixtures {
	f := &fixtures{cas: map[string]*qcert{}, leaf: map[string]*qcert{}, byName: map[string]*qcert{}}
	fxCA := map[string]*fx.Cert{}
	add := func(q *qcert) {
		f.queries = append(f.queries, q)
		f.byName[q.Name] = q
	}
	for i, cs := range caSpecs {
		cs := cs
		c := fx.MustMint(fx.CertSpec{CN: cs.cn, Key: cs.key, IsCA: true, Serial: int64(1000 + i),
			Tweak: func(t *x509.Certificate) {
				t.Subject = pkix.Name{CommonName: cs.cn, Organization: cs.org}
				switch cs.id {
				case "ca3u":
					t.RawSubject = rawName(12, [2]string{"CN", cs.cn}, [2]string{"O", cs.org[0]})
				case "ca3r":
					t.RawSubject = rawName(19, [2]string{"O", cs.org[0]}, [2]string{"CN", cs.cn})
				}
			}}, nil)
		fxCA[cs.id] = c
		q := mkQ(cs.id, c, nil)
		q.Look = cs.look
		f.cas[cs.id] = q
		if cs.slot >= 0 {
			f.slotCA[cs.slot] = q
		}
		add(q)
	}
	all := append(append([]*big.Int{}, serialVals...), unlistedSerial)
	for _, cs := range caSpecs {
		for si, s := range all {
			s := s
			if cs.look != "" && si != 0 && si != 3 && si != len(all)-1 {
				continue // look-alike issuers: serials 1, 2^64 and the unlisted one
			}
			name := fmt.Sprintf("leaf/%s/%s", cs.id, s)
			c := fx.MustMint(fx.CertSpec{CN: name, Key: "c15-leaf", Tweak: func(t *x509.Certificate) { t.SerialNumber = s }}, fxCA[cs.id])
			q := mkQ(name, c, f.cas[cs.id])
			q.Look = cs.look
			f.leaf[fmt.Sprintf("%s/%d", cs.id, si)] = q
			add(q)
		}
	}
	// a different certificate carrying the same issuer name and serial as a listable one
	for _, s := range []*big.Int{serialVals[0], serialVals[3]} {
		s := s
		name := fmt.Sprintf("twin/ca1/%s", s)
		c := fx.MustMint(fx.CertSpec{CN: name, Key: "c15-leaf2", Tweak: func(t *x509.Certificate) { t.SerialNumber = s }}, fxCA["ca1"])
		add(mkQ(name, c, f.cas["ca1"]))
	}
	// blocked-key certificates (unlisted serial 77)
	type bk struct{ name, cn, key, ca string }
	for _, b := range []bk{
		{"blocked-rsa", "Blocked RSA", "rsa1024", "ca1"},
		{"blocked-rsa/other-key", "Blocked RSA", "rsa1024b", "cax"},
		{"blocked-rsa/other-subject", "Other RSA", "rsa1024", "cax"},
		{"blocked-ec", "Blocked EC", "p256", "cax"},
		{"blocked-ec/other-key", "Blocked EC", "p256b", "cax"},
		{"blocked-ec/other-subject", "Other EC", "p256", "ca2"},
		{"blocked-ed", "Blocked Ed", "c15-ed-blocked", "cax"},
		{"blocked-p384", "Blocked P384", "p384", "cax"},
	} {
		c := fx.MustMint(fx.CertSpec{CN: b.cn, Key: b.key, Serial: 77}, fxCA[b.ca])
		add(mkQ(b.name, c, f.cas[b.ca]))
	}
	// self-signed certificate whose own key (= issuer key) is the blockable RSA key
	{
		c := fx.MustMint(fx.CertSpec{CN: "Blocked RSA root", Key: "rsa1024", IsCA: true, Serial: 78}, nil)
		add(mkQ("blocked-rsa/self-signed", c, nil))
	}
	// exotic keys: issued by the listed-capable ca1 under the listable serial 1, subject = the "Blocked RSA" subject of
	// blocked records 0 and 2 (so every model with one of them has a same-subject blocked record for these)
	for i, ek := range exoticKeys() {
		base := fx.MustMint(fx.CertSpec{CN: "Blocked RSA", Key: "c15-exotic", Tweak: func(t *x509.Certificate) { t.SerialNumber = serialVals[0] }}, fxCA["ca1"])
		der := spliceSPKI(base.DER, ek.spki, fx.Ed("c15-ca1"))
		z, err := x509.ParseCertificate(der)
		if err != nil {
			panic("fixture exotic/" + ek.kind + ": zcrypto cannot parse: " + err.Error())
		}
		q := mkQ("exotic/"+ek.kind, &fx.Cert{X: z, DER: der}, f.cas["ca1"])
		std, _ := stdx509.ParseCertificate(der)
		if q.SPKIHash != sha256.Sum256(ek.spki) || q.SubjDN != f.byName["blocked-rsa"].SubjDN || q.IssuerDN != f.cas["ca1"].SubjDN || q.Serial.Cmp(serialVals[0]) != 0 ||
			len(std.RawTBSCertificate) == 0 {
			panic("fixture exotic/" + ek.kind + " is not what was intended")
		}
		if !ed25519.Verify(fx.Ed("c15-ca1").Public().(ed25519.PublicKey), std.RawTBSCertificate, std.Signature) {
			panic("fixture exotic/" + ek.kind + ": signature by ca1 does not verify")
		}
		q.KeyKind = ek.kind // crypto/x509 knows DSA only; the kind is that of the SPKI written above
		add(q)
		f.oneBlocked[6+i].subj, f.oneBlocked[6+i].hash = []byte(q.SubjDN), q.SPKIHash
	}
	for _, q := range f.queries {
		ih := q.issuerSPKIHash()
		q.IssHex = hex.EncodeToString(ih[:])
	}
	f.crlsetBlocked[0] = f.cas["ca1"].SPKIHash
	f.crlsetBlocked[1] = f.byName["blocked-rsa"].SPKIHash
	f.oneBlocked[0].subj, f.oneBlocked[0].hash = []byte(f.byName["blocked-rsa"].SubjDN), f.byName["blocked-rsa"].SPKIHash
	f.oneBlocked[1].subj, f.oneBlocked[1].hash = []byte(f.byName["blocked-ec"].SubjDN), f.byName["blocked-ec"].SPKIHash
	f.oneBlocked[2].subj, f.oneBlocked[2].hash = []byte(f.byName["blocked-rsa/other-key"].SubjDN), f.byName["blocked-rsa/other-key"].SPKIHash
	f.oneBlocked[3].subj, f.oneBlocked[3].hash = []byte(f.byName["blocked-ec/other-subject"].SubjDN), f.byName["blocked-ec/other-subject"].SPKIHash
	f.oneBlocked[4].subj, f.oneBlocked[4].hash = []byte(f.byName["blocked-ed"].SubjDN), f.byName["blocked-ed"].SPKIHash
	f.oneBlocked[5].subj, f.oneBlocked[5].hash = []byte(f.byName["blocked-p384"].SubjDN), f.byName["blocked-p384"].SPKIHash
	if f.byName["blocked-ed"].KeyKind != "Ed25519" || f.byName["blocked-p384"].KeyKind != "ECDSA P-384" {
		panic("fixture keys are not of the intended kinds: " + f.byName["blocked-ed"].KeyKind + ", " + f.byName["blocked-p384"].KeyKind)
	}
	// the look-alike names really are other DER with ca3's attribute values
	for _, id := range []string{"ca3u", "ca3r"} {
		q := f.cas[id]
		if q.SubjDN == f.cas["ca3"].SubjDN || q.IssCN != f.cas["ca3"].IssCN || !eqOrg(q.IssOrg, f.cas["ca3"].IssOrg) {
			panic("look-alike issuer " + id + " is not a re-encoding of ca3's name")
		}
	}
	return f
}

// ---------------------------------------------------------------- model

// Model of a revocation set. Issuers[i] == nil: issuer slot i absent; otherwise
// the list of serial indices (possibly empty, CRLSet only) in encoding order.
type Model struct {
	Format  string  `json:"format"` // crlset | onecrl | sst
	Issuers [][]int `json:"issuers"`
	Blocked int     `json:"blocked_mask"` // bit i: blocked key i of the format's pool
	// 0: grouped in slot order; 1: reversed slot order, round-robin interleaved;
	// 2: as 0 and (CRLSet) the first parent with >=2 serials is written as TWO blocks with the same parent hash, its
	// first serial in place and the remaining ones in a block at the end of the file; (OneCRL) the first issuer/serial
	// record carries "enabled": false
	Layout int `json:"layout"`
}

// splitSlot: the slot that layout 2 of a CRLSet writes as two blocks, or -1.
func (m *Model) splitSlot() int {
	if m.Format != "crlset" || m.Layout != 2 {
		return -1
	}
	for s, l := range m.Issuers {
		if len(l) >= 2 {
			return s
		}
	}
	return -1
}

// disabledIdx: index (in flat order) of the OneCRL record written with enabled:false, or -1.
func (m *Model) disabledIdx() int {
	if m.Format != "onecrl" || m.Layout != 2 || len(m.flat()) == 0 {
		return -1
	}
	return 0 // the FIRST record: everything after it must be unaffected
}

type listed struct {
	slot, sidx int
}

// flat returns the (slot, serial) pairs in the order the encoder writes them.
func (m *Model) flat() []listed {
	var out []listed
	if m.Layout != 1 {
		for s, l := range m.Issuers {
			for _, si := range l {
				out = append(out, listed{s, si})
			}
		}
		return out
	}
	for k := 0; k < 3; k++ {
		for s := len(m.Issuers) - 1; s >= 0; s-- {
			if k < len(m.Issuers[s]) {
				out = append(out, listed{s, m.Issuers[s][k]})
			}
		}
	}
	return out
}

func (m *Model) has(slot int, serial *big.Int) bool {
	for _, si := range m.Issuers[slot] {
		if serialVals[si].Cmp(serial) == 0 {
			return true
		}
	}
	return false
}

func (m *Model) serialAnywhere(serial *big.Int) bool {
	for s := range m.Issuers {
		if m.has(s, serial) {
			return true
		}
	}
	return false
}

func (m *Model) String() string {
	var b strings.Builder
	b.WriteString(m.Format + " {")
	for s, l := range m.Issuers {
		if l == nil {
			continue
		}
		fmt.Fprintf(&b, " %s:[", caSpecs[s].id)
		for i, si := range l {
			if i > 0 {
				b.WriteByte(',')
			}
			b.WriteString(serialVals[si].String())
		}
		b.WriteString("]")
	}
	fmt.Fprintf(&b, " blocked=%02b layout=%d }", m.Blocked, m.Layout)
	return b.String()
}

// ---------------------------------------------------------------- encoders (written from the format descriptions)

type crlsetHeader struct {
	Version                  int      `json:"Version"`
	ContentType              string   `json:"ContentType"`
	Sequence                 int      `json:"Sequence"`
	DeltaFrom                int      `json:"DeltaFrom"`
	NumParents               int      `json:"NumParents"`
	BlockedSPKIs             []string `json:"BlockedSPKIs"`
	KnownInterceptionSPKIs   []string `json:"KnownInterceptionSPKIs"`
	BlockedInterceptionSPKIs []string `json:"BlockedInterceptionSPKIs"`
}

func crlsetSequence(m *Model) int { return 7000 + 10*len(m.flat()) + m.Blocked }

// encCRLSet: uint16 LE header length | JSON header | { 32-byte SHA-256(issuer SPKI) |
// uint32 LE count | { uint8 length | big-endian serial } } ; blocked SPKIs are
// base64(SHA-256(SPKI)) strings in the header, as in Chrome's published sets.
func encCRLSet(f *fixtures, m *Model) []byte {
	h := crlsetHeader{ContentType: "CRLSet", Sequence: crlsetSequence(m), BlockedSPKIs: []string{}, BlockedInterceptionSPKIs: []string{}}
	order := []int{0, 1, 2}
	if m.Layout == 1 {
		order = []int{2, 1, 0}
	}
	for _, s := range order {
		if m.Issuers[s] != nil {
			h.NumParents++
		}
	}
	for i := 0; i < 2; i++ {
		if m.Blocked&(1<<i) != 0 {
			h.BlockedSPKIs = append(h.BlockedSPKIs, base64.StdEncoding.EncodeToString(f.crlsetBlocked[i][:]))
		}
	}
	hj, err := json.Marshal(h)
	if err != nil {
		panic(err)
	}
	var b bytes.Buffer
	binary.Write(&b, binary.LittleEndian, uint16(len(hj)))
	b.Write(hj)
	block := func(s int, l []int) {
		b.Write(f.slotCA[s].SPKIHash[:])
		binary.Write(&b, binary.LittleEndian, uint32(len(l)))
		for _, si := range l {
			sb := crlsetSerialBytes[si]
			b.WriteByte(byte(len(sb)))
			b.Write(sb)
		}
	}
	split := m.splitSlot()
	for _, s := range order {
		l := m.Issuers[s]
		if l == nil {
			continue
		}
		if s == split {
			l = l[:1]
		}
		block(s, l)
	}
	if split >= 0 {
		block(split, m.Issuers[split][1:])
	}
	return b.Bytes()
}

type oneDetails struct {
	Bug     string `json:"bug"`
	Who     string `json:"who"`
	Why     string `json:"why"`
	Name    string `json:"name"`
	Created string `json:"created"`
}
type oneRecord struct {
	Schema       int64      `json:"schema"`
	Details      oneDetails `json:"details"`
	Enabled      bool       `json:"enabled"`
	IssuerName   string     `json:"issuerName,omitempty"`
	SerialNumber string     `json:"serialNumber,omitempty"`
	Subject      string     `json:"subject,omitempty"`
	PubKeyHash   string     `json:"pubKeyHash,omitempty"`
	ID           string     `json:"id"`
	LastModified int64      `json:"last_modified"`
}

const oneBaseMillis = int64(1527680137883)

// encOneCRL: {"data":[record…]}; issuer/serial records carry base64(DER Name) and
// base64(DER INTEGER content octets); subject/pubKeyHash records carry
// base64(DER Name) and base64(SHA-256(SPKI)).
func encOneCRL(f *fixtures, m *Model) []byte {
	var recs []oneRecord
	mk := func(i int) oneRecord {
		return oneRecord{Schema: oneBaseMillis + int64(i)*1000, Enabled: true, ID: fmt.Sprintf("c15-%04d", i), LastModified: oneBaseMillis + 5000 + int64(i)*1000,
			Details: oneDetails{Bug: "https://bugzilla.example/1", Who: "verif", Created: "2018-05-30T12:35:03Z"}}
	}
	var blocked []oneRecord
	for i := 0; i < len(f.oneBlocked); i++ {
		if m.Blocked&(1<<i) != 0 {
			r := mk(100 + i)
			r.Subject = base64.StdEncoding.EncodeToString(f.oneBlocked[i].subj)
			r.PubKeyHash = base64.StdEncoding.EncodeToString(f.oneBlocked[i].hash[:])
			blocked = append(blocked, r)
		}
	}
	if m.Layout == 1 {
		// blocked records first, in reverse pool order
		for i := len(blocked) - 1; i >= 0; i-- {
			recs = append(recs, blocked[i])
		}
	}
	dis := m.disabledIdx()
	for i, e := range m.flat() {
		r := mk(i)
		r.Enabled = i != dis
		r.IssuerName = base64.StdEncoding.EncodeToString([]byte(f.slotCA[e.slot].SubjDN))
		r.SerialNumber = base64.StdEncoding.EncodeToString(derIntContent(serialVals[e.sidx]))
		recs = append(recs, r)
	}
	if m.Layout != 1 {
		recs = append(recs, blocked...)
	}
	if recs == nil {
		recs = []oneRecord{}
	}
	out, err := json.Marshal(struct {
		Data []oneRecord `json:"data"`
	}{recs})
	if err != nil {
		panic(err)
	}
	return out
}

// encSST: uint32 version 0 | "CERT" | per certificate { property elements
// (uint32 id, uint32 encoding 1, uint32 length, value) } { id 0x20, encoding 1,
// length, DER certificate } | end marker (uint32 0, uint64 0). All little endian.
func encSST(f *fixtures, m *Model) []byte {
	var b bytes.Buffer
	le := func(v uint32) { binary.Write(&b, binary.LittleEndian, v) }
	elem := func(id uint32, val []byte) {
		le(id)
		le(1)
		le(uint32(len(val)))
		b.Write(val)
	}
	le(0)
	b.WriteString("CERT")
	for k, e := range m.flat() {
		der := f.leaf[fmt.Sprintf("%s/%d", caSpecs[e.slot].id, e.sidx)].DER
		switch k % 3 {
		case 0: // as in the published store: SHA-1 hash property
			h := sha1.Sum(der)
			elem(3, h[:])
		case 1: // no property
		case 2: // an empty property and one whose value looks like element headers
			elem(20, nil)
			elem(11, []byte{0x20, 0, 0, 0, 1, 0, 0, 0, 4, 0, 0, 0, 0, 0, 0, 0, 0, 0, 0, 0, 0, 0, 0, 0})
		}
		elem(0x20, der)
	}
	le(0)
	binary.Write(&b, binary.LittleEndian, uint64(0))
	return b.Bytes()
}

// ---------------------------------------------------------------- oracles

type verdict struct{ sig, detail, query string }

type ctxEval struct {
	f *fixtures
	h ev.Hist
	// per (prefix, category) answer counters, folded into h by flush
	hc map[string]map[string]*[2]int64
	// counters
	parses, checks int64
}

func (x *ctxEval) count(prefix, cat string, rev bool) {
	if x.hc == nil {
		x.hc = map[string]map[string]*[2]int64{}
	}
	mp := x.hc[prefix]
	if mp == nil {
		mp = map[string]*[2]int64{}
		x.hc[prefix] = mp
	}
	p := mp[cat]
	if p == nil {
		p = new([2]int64)
		mp[cat] = p
	}
	if rev {
		p[1]++
	} else {
		p[0]++
	}
}

func (x *ctxEval) flush() ev.Hist {
	for prefix, mp := range x.hc {
		for cat, p := range mp {
			if p[0] > 0 {
				x.h[prefix+cat+revStr(false)] += p[0]
			}
			if p[1] > 0 {
				x.h[prefix+cat+revStr(true)] += p[1]
			}
		}
	}
	x.hc = nil
	return x.h
}

func revStr(rev bool) string {
	if rev {
		return " → revoked=true"
	}
	return " → revoked=false"
}

func eqOrg(a, b []string) bool { return strings.Join(a, "\x00") == strings.Join(b, "\x00") }

// --- CRLSet

func evalCRLSet(x *ctxEval, m *Model, enc []byte) (out []verdict) {
	f := x.f
	var set *google.CRLSet
	var err error
	if p, msg, site := ev.Try(func() { set, err = google.Parse(enc, "v-c15") }); p {
		return []verdict{{"crlset.Parse: panic@" + site + ": " + ev.MsgClass(msg), msg, ""}}
	}
	x.parses++
	if err != nil || set == nil {
		return []verdict{{"crlset.Parse: error on a well-formed set: " + ev.MsgClass(fmt.Sprint(err)), fmt.Sprint(err), ""}}
	}
	// structure
	if set.Sequence != crlsetSequence(m) || set.Version != "v-c15" {
		out = append(out, verdict{"crlset.Parse: Sequence/Version not reported", fmt.Sprintf("Sequence=%d Version=%q", set.Sequence, set.Version), ""})
	}
	np := 0
	for s := range m.Issuers {
		if m.Issuers[s] != nil {
			np++
		}
	}
	if set.NumParents != np {
		out = append(out, verdict{"crlset.Parse: NumParents not reported", fmt.Sprintf("got %d want %d", set.NumParents, np), ""})
	}
	if len(set.IssuerLists) != np {
		out = append(out, verdict{"crlset.Parse: number of issuer lists differs from the model", fmt.Sprintf("got %d want %d", len(set.IssuerLists), np), ""})
	}
	for s, l := range m.Issuers {
		if l == nil {
			continue
		}
		hx := hex.EncodeToString(f.slotCA[s].SPKIHash[:])
		il := set.IssuerLists[hx]
		if il == nil {
			out = append(out, verdict{"crlset.Parse: issuer list missing (looked up by hex SHA-256 of the issuer SPKI)", "issuer " + caSpecs[s].id, ""})
			continue
		}
		if il.SPKIHash != hx {
			out = append(out, verdict{"crlset.Parse: IssuerList.SPKIHash differs from its key", il.SPKIHash, ""})
		}
		sameList := func(l []int) bool {
			ok := len(il.Entries) == len(l)
			for i := 0; ok && i < len(l); i++ {
				if il.Entries[i] == nil || il.Entries[i].SerialNumber == nil || il.Entries[i].SerialNumber.Cmp(serialVals[l[i]]) != 0 {
					ok = false
				}
			}
			return ok
		}
		ok := sameList(l)
		if s == m.splitSlot() {
			// one parent in two blocks: Chrome's generator never writes that and the
			// statement only speaks of well-formed sets. The union or the later block
			// alone (what Chrome's own index keeps) are both accepted and counted.
			switch {
			case ok:
				x.h["crlset(parent in two blocks): Parse reports the union"]++
			case sameList(l[1:]):
				ok = true
				x.h["crlset(parent in two blocks): Parse reports the later block only"]++
			}
		}
		if !ok {
			var got []string
			for _, e := range il.Entries {
				if e != nil && e.SerialNumber != nil {
					got = append(got, e.SerialNumber.String())
				} else {
					got = append(got, "nil")
				}
			}
			out = append(out, verdict{"crlset.Parse: serial list differs from the model", fmt.Sprintf("issuer %s got %v", caSpecs[s].id, got), ""})
		}
	}
	// blocked keys: base64 (as in the file) or hex renderings of the hash are both accepted
	var wantB, gotB []string
	for i := 0; i < 2; i++ {
		if m.Blocked&(1<<i) != 0 {
			wantB = append(wantB, hex.EncodeToString(f.crlsetBlocked[i][:]))
		}
	}
	for _, s := range set.BlockedSPKIs {
		if raw, e := base64.StdEncoding.DecodeString(s); e == nil && len(raw) == 32 {
			gotB = append(gotB, hex.EncodeToString(raw))
		} else if raw, e := hex.DecodeString(s); e == nil && len(raw) == 32 {
			gotB = append(gotB, hex.EncodeToString(raw))
		} else {
			gotB = append(gotB, "?"+s)
		}
	}
	sort.Strings(wantB)
	sort.Strings(gotB)
	if strings.Join(wantB, ",") != strings.Join(gotB, ",") {
		out = append(out, verdict{"crlset.Parse: blocked SPKIs differ from the model", fmt.Sprintf("got %v want %v", gotB, wantB), ""})
	}
	if len(out) > 0 {
		return out
	}
	x.h["crlset:parsed≙model"]++

	// membership. The statement: "by issuer SPKI hash and serial or blocked SPKI".
	// The blocked list is matched against the SPKI hash handed to Check, which the
	// API names issuerSPKIHash and verifier.go fills with the parent's SPKI
	// fingerprint: the ISSUER-key reading, pinned for the whole run. A certificate
	// whose own key is blocked is found when Check is asked about its children.
	blockedHash := func(h [32]byte) bool {
		for i := 0; i < 2; i++ {
			if m.Blocked&(1<<i) != 0 && f.crlsetBlocked[i] == h {
				return true
			}
		}
		return false
	}
	split := m.splitSlot()
	for _, q := range f.queries {
		ih := q.issuerSPKIHash()
		listedHS, issuerListed, earlierBlockOnly := false, false, false
		for s := range m.Issuers {
			if m.Issuers[s] != nil && f.slotCA[s].SPKIHash == ih {
				issuerListed = true
				if m.has(s, q.Serial) {
					listedHS = true
					if s == split && serialVals[m.Issuers[s][0]].Cmp(q.Serial) == 0 {
						earlierBlockOnly = true
					}
				}
			}
		}
		issB, ownB := blockedHash(ih), blockedHash(q.SPKIHash)
		var got *google.Entry
		if p, msg, site := ev.Try(func() { got = set.Check(q.Z, q.IssHex) }); p {
			out = append(out, verdict{"crlset.Check: panic@" + site + ": " + ev.MsgClass(msg), msg, q.Name})
			continue
		}
		x.checks++
		rev := got != nil
		cat := "unrelated"
		switch {
		case listedHS:
			cat = "listed (issuer SPKI hash + serial)"
		case issB && ownB:
			cat = "issuer key = own key = blocked SPKI"
		case issB:
			cat = "issuer key is a blocked SPKI"
		case ownB:
			cat = "own key is a blocked SPKI, issuer key is not"
		case issuerListed:
			cat = "issuer listed, other serial"
		case nameListed(f, m, q):
			cat = "issuer name+serial listed but issuer key differs"
		case m.serialAnywhere(q.Serial):
			cat = "serial listed under another issuer"
		}
		if earlierBlockOnly && !issB {
			// listed only in the earlier of two blocks of one parent: see Parse above
			x.count("crlset(parent in two blocks): ", "serial only in the earlier block", rev)
			continue
		}
		want := listedHS || issB
		if rev != want {
			out = append(out, verdict{fmt.Sprintf("crlset.Check: want revoked=%v got %v [%s]", want, rev, cat), "", q.Name})
		} else if rev && listedHS && !issB && (got.SerialNumber == nil || got.SerialNumber.Cmp(q.Serial) != 0) {
			out = append(out, verdict{"crlset.Check: returned entry carries another serial", "", q.Name})
		}
		x.count("crlset: ", cat, rev)
	}
	return out
}

// nameListed: the query's issuer NAME + serial is listed in the model (used for labels).
func nameListed(f *fixtures, m *Model, q *qcert) bool {
	for s := range m.Issuers {
		if m.Issuers[s] != nil && f.slotCA[s].SubjDN == q.IssuerDN && m.has(s, q.Serial) {
			return true
		}
	}
	return false
}

func nameCategory(f *fixtures, m *Model, q *qcert) (listedNS bool, cat string) {
	issuerListed, keyDiffers := false, false
	for s := range m.Issuers {
		if m.Issuers[s] != nil && f.slotCA[s].SubjDN == q.IssuerDN {
			issuerListed = true
			if m.has(s, q.Serial) {
				listedNS = true
				keyDiffers = f.slotCA[s].SPKIHash != q.Issuer.SPKIHash
			}
		}
	}
	switch {
	case q.Look != "" && !listedNS && m.Issuers[lookSlot] != nil && m.has(lookSlot, q.Serial):
		cat = "NOT listed: issuer DER differs from a listed issuer+serial only by " + q.Look
	case q.Look != "" && !listedNS && m.Issuers[lookSlot] != nil:
		cat = "issuer DER differs from a listed issuer only by its encoding, other serial"
	case listedNS && keyDiffers:
		cat = "listed (issuer name + serial), issuer key differs"
	case listedNS:
		cat = "listed (issuer name + serial)"
	case issuerListed:
		cat = "issuer listed, other serial"
	case keyListed(f, m, q):
		cat = "issuer key+serial listed but issuer name differs"
	case m.serialAnywhere(q.Serial):
		cat = "serial listed under another issuer"
	default:
		cat = "unrelated"
	}
	return
}

func keyListed(f *fixtures, m *Model, q *qcert) bool {
	for s := range m.Issuers {
		if m.Issuers[s] != nil && f.slotCA[s].SPKIHash == q.Issuer.SPKIHash && m.has(s, q.Serial) {
			return true
		}
	}
	return false
}

// issuerListsByName checks the issuer->serial structure of the two name-keyed formats.
func checkNameLists(f *fixtures, m *Model, pfx string, n int, each func(yield func(cn string, org []string, serials []*big.Int))) (out []verdict) {
	want := map[int][]int{}
	for _, e := range m.flat() {
		want[e.slot] = append(want[e.slot], e.sidx)
	}
	if n != len(want) {
		out = append(out, verdict{pfx + ".Parse: number of issuer lists differs from the model", fmt.Sprintf("got %d want %d", n, len(want)), ""})
	}
	seen := map[int]bool{}
	each(func(cn string, org []string, serials []*big.Int) {
		slot := -1
		for s := 0; s < 3; s++ {
			if caSpecs[s].cn == cn && eqOrg(caSpecs[s].org, org) {
				slot = s
			}
		}
		if slot < 0 || want[slot] == nil || seen[slot] {
			out = append(out, verdict{pfx + ".Parse: issuer list for an issuer that the model does not contain (or twice)", fmt.Sprintf("CN=%q O=%v", cn, org), ""})
			return
		}
		seen[slot] = true
		ok := len(serials) == len(want[slot])
		for i := 0; ok && i < len(serials); i++ {
			if serials[i] == nil || serials[i].Cmp(serialVals[want[slot][i]]) != 0 {
				ok = false
			}
		}
		if !ok {
			out = append(out, verdict{pfx + ".Parse: serial list differs from the model", fmt.Sprintf("issuer %s got %v", caSpecs[slot].id, serials), ""})
		}
	})
	for s := range want {
		if !seen[s] {
			out = append(out, verdict{pfx + ".Parse: issuer list missing", "issuer " + caSpecs[s].id, ""})
		}
	}
	return
}

// --- OneCRL

func evalOneCRL(x *ctxEval, m *Model, enc []byte) (out []verdict) {
	f := x.f
	var set *mozilla.OneCRL
	var err error
	if p, msg, site := ev.Try(func() { set, err = mozilla.Parse(enc) }); p {
		return []verdict{{"onecrl.Parse: panic@" + site + ": " + ev.MsgClass(msg), msg, ""}}
	}
	x.parses++
	if err != nil || set == nil {
		return []verdict{{"onecrl.Parse: error on a well-formed document: " + ev.MsgClass(fmt.Sprint(err)), fmt.Sprint(err), ""}}
	}
	metaOK := true
	out = append(out, checkNameLists(f, m, "onecrl", len(set.IssuerLists), func(yield func(string, []string, []*big.Int)) {
		for _, il := range set.IssuerLists {
			if il == nil || il.Issuer == nil {
				yield("<nil>", nil, nil)
				continue
			}
			var ss []*big.Int
			for _, e := range il.Entries {
				if e == nil {
					ss = append(ss, nil)
					continue
				}
				ss = append(ss, e.SerialNumber)
				// record metadata: not named by the statement, information only
				var idx int
				if _, err := fmt.Sscanf(e.ID, "c15-%04d", &idx); err != nil || e.Enabled != (idx != m.disabledIdx()) ||
					!e.LastModified.Equal(time.Unix((oneBaseMillis+5000+int64(idx)*1000)/1000, 0)) || !e.Schema.Equal(time.Unix((oneBaseMillis+int64(idx)*1000)/1000, 0)) {
					metaOK = false
				}
				if e.Details.Created == nil {
					x.h["info:onecrl details.created not decoded"]++
				}
			}
			yield(il.Issuer.CommonName, il.Issuer.Organization, ss)
		}
	})...)
	if !metaOK {
		x.h["info:onecrl record metadata (id/enabled/schema/last_modified) differs"]++
	}
	var wantB, gotB []string
	for i := 0; i < len(f.oneBlocked); i++ {
		if m.Blocked&(1<<i) != 0 {
			wantB = append(wantB, hex.EncodeToString(f.oneBlocked[i].subj)+"|"+hex.EncodeToString(f.oneBlocked[i].hash[:]))
		}
	}
	for _, b := range set.Blocked {
		if b == nil {
			gotB = append(gotB, "nil")
			continue
		}
		gotB = append(gotB, hex.EncodeToString(b.RawSubject)+"|"+hex.EncodeToString(b.PubKeyHash))
	}
	sort.Strings(wantB)
	sort.Strings(gotB)
	if strings.Join(wantB, ",") != strings.Join(gotB, ",") {
		out = append(out, verdict{"onecrl.Parse: blocked subject/key-hash entries differ from the model", fmt.Sprintf("got %d entries want %d", len(gotB), len(wantB)), ""})
	}
	if len(out) > 0 {
		return out
	}
	x.h["onecrl:parsed≙model"]++

	dis := m.disabledIdx()
	var disRec listed
	if dis >= 0 {
		disRec = m.flat()[dis]
	}
	for _, q := range f.queries {
		listedNS, cat := nameCategory(f, m, q)
		blk, subjOnly, keyOnly := false, false, false
		for i := 0; i < len(f.oneBlocked); i++ {
			if m.Blocked&(1<<i) == 0 {
				continue
			}
			sm, km := string(f.oneBlocked[i].subj) == q.SubjDN, f.oneBlocked[i].hash == q.SPKIHash
			switch {
			case sm && km:
				blk = true
			case sm:
				subjOnly = true
			case km:
				keyOnly = true
			}
		}
		switch {
		case blk:
			cat = "blocked subject + key hash (" + q.KeyKind + " key)"
		case listedNS:
		case subjOnly:
			cat = "blocked subject, other key"
		case keyOnly:
			cat = "blocked key, other subject"
		}
		want := blk || listedNS
		var got *mozilla.Entry
		if p, msg, site := ev.Try(func() { got = set.Check(q.Z) }); p {
			out = append(out, verdict{"onecrl.Check: panic@" + site + ": " + ev.MsgClass(msg), msg, q.Name})
			continue
		}
		x.checks++
		rev := got != nil
		if dis >= 0 && !blk && listedNS && f.slotCA[disRec.slot].SubjDN == q.IssuerDN && serialVals[disRec.sidx].Cmp(q.Serial) == 0 {
			// the record that lists it says "enabled": false; the statement does not
			// say whether such a record revokes: the answer is recorded
			x.count("onecrl(enabled:false): ", "listed by the disabled record only", rev)
			continue
		}
		if rev != want {
			out = append(out, verdict{fmt.Sprintf("onecrl.Check: want revoked=%v got %v [%s]", want, rev, cat), "", q.Name})
		} else if rev && !blk && (got.SerialNumber == nil || got.SerialNumber.Cmp(q.Serial) != 0) {
			out = append(out, verdict{"onecrl.Check: returned entry carries another serial", "", q.Name})
		}
		x.count("onecrl: ", cat, rev)
	}
	return out
}

// --- Microsoft SST

func evalSST(x *ctxEval, m *Model, enc []byte) (out []verdict) {
	f := x.f
	var set *microsoft.DisallowedCerts
	var err error
	if p, msg, site := ev.Try(func() { set, err = microsoft.Parse(enc) }); p {
		return []verdict{{"sst.Parse: panic@" + site + ": " + ev.MsgClass(msg), msg, ""}}
	}
	x.parses++
	if err != nil || set == nil {
		return []verdict{{"sst.Parse: error on a well-formed store: " + ev.MsgClass(fmt.Sprint(err)), fmt.Sprint(err), ""}}
	}
	out = append(out, checkNameLists(f, m, "sst", len(set.IssuerLists), func(yield func(string, []string, []*big.Int)) {
		for _, il := range set.IssuerLists {
			if il == nil {
				yield("<nil>", nil, nil)
				continue
			}
			var ss []*big.Int
			for _, e := range il.Entries {
				if e == nil {
					ss = append(ss, nil)
				} else {
					ss = append(ss, e.SerialNumber)
				}
			}
			yield(il.Issuer.CommonName, il.Issuer.Organization, ss)
		}
	})...)
	if len(out) > 0 {
		return out
	}
	x.h["sst:parsed≙model"]++
	for _, q := range f.queries {
		want, cat := nameCategory(f, m, q)
		var got *microsoft.Entry
		if p, msg, site := ev.Try(func() { got = microsoft.Check(set, q.Z) }); p {
			out = append(out, verdict{"sst.Check: panic@" + site + ": " + ev.MsgClass(msg), msg, q.Name})
			continue
		}
		x.checks++
		rev := got != nil
		if rev != want {
			out = append(out, verdict{fmt.Sprintf("sst.Check: want revoked=%v got %v [%s]", want, rev, cat), "", q.Name})
		} else if rev && (got.SerialNumber == nil || got.SerialNumber.Cmp(q.Serial) != 0) {
			out = append(out, verdict{"sst.Check: returned entry carries another serial", "", q.Name})
		}
		x.count("sst: ", cat, rev)
	}
	return out
}

// ---------------------------------------------------------------- enumeration

// serialLists: every list an issuer slot can carry. ordered=false: subsets of the
// alphabet of size 1..3 in alphabet order; ordered=true: every sequence without
// repetition of length 1..3.
func serialLists(ordered bool) [][]int {
	var out [][]int
	n := len(serialVals)
	var rec func(cur []int, used int)
	rec = func(cur []int, used int) {
		if len(cur) > 0 {
			out = append(out, append([]int{}, cur...))
		}
		if len(cur) == 3 {
			return
		}
		for i := 0; i < n; i++ {
			if used&(1<<i) != 0 {
				continue
			}
			if !ordered && len(cur) > 0 && i < cur[len(cur)-1] {
				continue
			}
			rec(append(cur, i), used|1<<i)
		}
	}
	rec(nil, 0)
	return out
}

type witness struct {
	Model   Model  `json:"model"`
	Desc    string `json:"model_text"`
	Query   string `json:"query_certificate,omitempty"`
	Detail  string `json:"detail,omitempty"`
	Encoded string `json:"encoded_set_hex"`
	QDER    string `json:"query_certificate_der_hex,omitempty"`
	IssHash string `json:"issuer_spki_sha256_hex,omitempty"`
	How     string `json:"how"`
}

func encode(f *fixtures, m *Model) []byte {
	switch m.Format {
	case "crlset":
		return encCRLSet(f, m)
	case "onecrl":
		return encOneCRL(f, m)
	}
	return encSST(f, m)
}

func evalModel(x *ctxEval, m *Model) ([]verdict, []byte) {
	enc := encode(x.f, m)
	switch m.Format {
	case "crlset":
		return evalCRLSet(x, m, enc), enc
	case "onecrl":
		return evalOneCRL(x, m, enc), enc
	}
	return evalSST(x, m, enc), enc
}

func main() {
	if nohb.IsWorker() {
		nohb.WorkerMain(reentrantOps(), reentrantRepoDir())
		return
	}
	ev.Main("C15", "model_checking", func(c *ev.Ctx) {
		f := buildFixtures()
		subsets := serialLists(false)
		sequences := serialLists(true)
		c.Set("serial_lists_per_issuer_subsets", len(subsets))
		c.Set("query_certificates", len(f.queries))
		extra := ""
		if !c.Quick() {
			c.Set("serial_lists_per_issuer_sequences", len(sequences))
			extra = " PLUS (thorough) the same with every ORDER of each serial list (sequences without repetition of length 1..3) x blocked keys {none, both} x layouts {both for OneCRL/SST, slot order for CRLSet}, models already covered by the first part skipped;"
		}
		c.Rule("ALL models: 3 issuer slots (ca1 'CN=Rev CA 1', ca2 'CN=Rev CA 2,O=Org', ca3 'CN=Rev CA 1,O=Org'), each absent or carrying a serial list = subset of size 1..3 of {1,255,256,2^64,128} in alphabet order (CRLSet additionally: present with 0 serials) x every subset of the format's blocked keys (CRLSet: 2 SPKI hashes; OneCRL: 4 RSA-1024/P-256 subject/key-hash records of which two share a subject and two share a key; none for SST) x 2 layouts (slot order grouped / reversed order interleaved, blocked records last/first, SST property elements none|SHA-1|empty+header-lookalike); OneCRL additionally: all 48 blocked masks containing an Ed25519-key and/or a P-384-key record x issuer lists from {[1],[255,2^64],[1,256,128]} per slot x 2 layouts (expected key hash = SHA-256 of the SubjectPublicKeyInfo bytes in the certificate), and every model with the FIRST issuer/serial record written \"enabled\":false (layout 2, answer for that record recorded, all other answers strict); CRLSet additionally: every model with the first parent of >=2 serials written as TWO blocks of the same parent hash (layout 2; union or later-block-only accepted for that parent, serials of the later block and everything else strict);" + extra + " each model encoded as CRLSet, OneCRL JSON and SST by the harness' own encoders, parsed, compared with the model, then queried with EVERY pool certificate: 6 CAs (3 listed-capable, unrelated, same-name-other-key, same-key-other-name) x serials {alphabet, 77} leaves, 2 CAs whose subject is ca3's name in another DER encoding (UTF8String values; RDN order O,CN) with leaves of serials {1, 2^64, 77} -- never listed, expected not revoked in every format --, the CA certificates, 2 same-issuer+serial twins, RSA/ECDSA/Ed25519/P-384 blocked-key certificates with same-subject-other-key and same-key-other-subject variants and a self-signed one, and 3 EXOTIC-KEY certificates (keys the parser accepts but other code may not handle: DSA, X25519, a SubjectPublicKeyInfo with an unknown algorithm OID; SPKI hand-spliced into a minted certificate and signed with ca1's real key) issued by the listed-capable ca1 under the listable serial 1 with the subject of blocked records 0/2, so that they are queried with and without a same-subject blocked record in all three formats (key kind is irrelevant to issuer+serial listing); OneCRL additionally: every non-empty subset of 3 records carrying those certificates' own subject + SHA-256(SubjectPublicKeyInfo DER), with and without record 0, x issuer lists from {[1],[255,2^64],[1,256,128]} per slot x 2 layouts; a model is non-trivial/distinct by (format, issuer lists, blocked mask, layout)")
		c.Assume(
			"query certificate features (raw issuer/subject names, serial, SPKI) are read with crypto/x509 from the DER; expected membership is computed from the model only",
			"CRLSet blocked SPKIs are base64(SHA-256(SPKI)) header strings as in Chrome's published sets (testdata/crl-set-6375); Check is called with the hex SHA-256 of the issuer's SPKI (the key form of IssuerLists, as verifier.go does)",
			"CRLSet blocked SPKIs are matched against the hash handed to Check (parameter issuerSPKIHash, filled by verifier.go with the parent's SPKI fingerprint): the issuer-key reading is pinned for the whole run; a certificate whose own key is blocked but whose issuer's is not must NOT be reported",
			"issuer names are compared as DER (OneCRL issuerName is the base64 DER Name, the SST holds whole certificates): an issuer whose name has the same attribute values in another encoding is another issuer",
			"a CRLSet with one parent in two blocks and a OneCRL record with enabled:false are outside what the statement fixes: Parse/Check answers for exactly that parent's earlier block / that record are recorded as outcomes, everything else in those sets is judged strictly",
			"OneCRL serialNumber = base64 of the DER INTEGER content octets; records enabled:true except in layout 2; record metadata (id, timestamps, details) is compared but only reported as information",
			"issuer names of distinct MODEL issuers differ in their attribute values; rendering collisions are constructed on the query side only (look-alike issuers)",
			"only well-formed sets (malformed input is C01)",
		)

		report := func(m *Model, enc []byte, vs []verdict) {
			for _, v := range vs {
				w := witness{Model: *m, Desc: m.String(), Query: v.query, Detail: v.detail, Encoded: hex.EncodeToString(enc),
					How: "decode encoded_set_hex, Parse it with the package of model.format (google/mozilla/microsoft), call Check with the query certificate (CRLSet: plus issuer_spki_sha256_hex)"}
				if q := f.byName[v.query]; q != nil {
					w.QDER = hex.EncodeToString(q.DER)
					ih := q.issuerSPKIHash()
					w.IssHash = hex.EncodeToString(ih[:])
				}
				c.Violation(v.sig, w)
			}
		}

		if c.Replay != nil {
			var w witness
			if err := json.Unmarshal(c.Replay, &w); err != nil {
				c.Broken("bad witness: %v", err)
			}
			x := &ctxEval{f: f, h: ev.Hist{}}
			m := w.Model
			for len(m.Issuers) < 3 {
				m.Issuers = append(m.Issuers, nil)
			}
			vs, enc := evalModel(x, &m)
			report(&m, enc, vs)
			c.Merge(x.flush())
			c.States.Add(1)
			c.Transitions.Add(x.parses + x.checks)
			return
		}

		type part struct {
			name    string
			lists   [][]int
			masks   []int
			layouts []int
			skipAsc bool // skip models whose lists are all in alphabet order (covered by the subsets part)
		}
		ascending := func(l []int) bool {
			for i := 1; i < len(l); i++ {
				if l[i] < l[i-1] {
					return false
				}
			}
			return true
		}
		// development aid: VERIF_C15_ONLY=<format>/<part>,… runs just those parts (the run is then reported incomplete)
		only := os.Getenv("VERIF_C15_ONLY")
		if only != "" {
			c.Incomplete("VERIF_C15_ONLY=" + only + ": only the named parts were enumerated")
		}
	formats:
		for _, format := range []string{"crlset", "onecrl", "sst"} {
			allMasks, bothMasks := []int{0, 1, 2, 3}, []int{0, 3}
			if format == "sst" {
				allMasks, bothMasks = []int{0}, []int{0}
			}
			if format == "onecrl" {
				// every subset of the 4 subject/key-hash records (two of them share a subject, two share a key)
				allMasks, bothMasks = []int{0, 1, 2, 3, 4, 5, 6, 7, 8, 9, 10, 11, 12, 13, 14, 15}, []int{0, 3, 5, 10, 15}
			}
			parts := []part{{"subsets", subsets, allMasks, []int{0, 1}, false}}
			switch format {
			case "crlset":
				// one parent written as two blocks (layout 2)
				parts = append(parts, part{"parent-in-two-blocks", subsets, []int{0}, []int{2}, false})
			case "onecrl":
				// every blocked mask that contains the Ed25519 and/or the P-384 record, on a small issuer-list space
				// (the blocked path of Check runs before and independently of the issuer lists)
				var newMasks []int
				for k := 16; k < 64; k++ {
					newMasks = append(newMasks, k)
				}
				parts = append(parts, part{"ed25519-p384-blocked-keys", [][]int{{0}, {1, 3}, {0, 2, 4}}, newMasks, []int{0, 1}, false})
				// records carrying the exotic-key certificates' own SubjectPublicKeyInfo hash: every non-empty subset of the
				// three, with and without the same-subject RSA record 0
				var exMasks []int
				for sub := 1; sub < 8; sub++ {
					exMasks = append(exMasks, sub<<6, sub<<6|1)
				}
				parts = append(parts, part{"exotic-key-blocked-records", [][]int{{0}, {1, 3}, {0, 2, 4}}, exMasks, []int{0, 1}, false})
				// first issuer/serial record disabled (layout 2)
				parts = append(parts, part{"disabled-record", subsets, []int{0}, []int{2}, false})
			}
			if !c.Quick() {
				lay := []int{0, 1}
				if format == "crlset" {
					lay = []int{0}
				}
				parts = append(parts, part{"sequences", sequences, bothMasks, lay, true})
			}
			for _, pt := range parts {
				pt := pt
				lists := pt.lists
				if only != "" && !strings.Contains(","+only+",", ","+format+"/"+pt.name+",") {
					continue
				}
				// per-slot options: 0 = absent, 1..len(lists) = list, (crlset) len(lists)+1 = present but empty
				opts := len(lists) + 1
				if format == "crlset" {
					opts++
				}
				per := len(pt.masks) * len(pt.layouts)
				total := opts * opts * opts * per
				slotList := func(o int) []int {
					switch {
					case o == 0:
						return nil
					case o <= len(lists):
						return lists[o-1]
					}
					return []int{}
				}
				var evaluated int64Counter
				done := c.Parallel((total+255)/256, func(w, chunk int) {
					x := &ctxEval{f: f, h: ev.Hist{}}
					var n int64
					for i := chunk * 256; i < (chunk+1)*256 && i < total; i++ {
						k := i
						layout := pt.layouts[k%len(pt.layouts)]
						k /= len(pt.layouts)
						bl := pt.masks[k%len(pt.masks)]
						k /= len(pt.masks)
						m := &Model{Format: format, Blocked: bl, Layout: layout, Issuers: [][]int{slotList(k % opts), slotList(k / opts % opts), slotList(k / opts / opts)}}
						if pt.skipAsc && ascending(m.Issuers[0]) && ascending(m.Issuers[1]) && ascending(m.Issuers[2]) {
							continue
						}
						if layout == 2 && m.splitSlot() < 0 && m.disabledIdx() < 0 {
							continue // layout 2 changes nothing for this model
						}
						vs, enc := evalModel(x, m)
						if len(vs) > 0 {
							report(m, enc, vs)
						}
						n++
						if c.WantSample() && i%9973 == 4321 {
							c.Sample(map[string]any{"model": m.String(), "encoded_bytes": len(enc), "queries": len(f.queries)})
						}
					}
					c.Merge(x.flush())
					evaluated.add(n)
					c.States.Add(n)
					c.Distinct.Add(n)
					c.Transitions.Add(x.parses + x.checks)
					c.Traces.Add(x.checks)
					c.Evaluations.Add(x.checks + x.parses)
				})
				c.Set("models_"+format+"_"+pt.name, evaluated.get())
				if !done {
					c.Incomplete("time budget hit while enumerating " + format + " models (" + pt.name + " part)")
					break formats
				}
			}
		}
		if only == "" {
			reentrantPhase(c)
		}
	})
}

type int64Counter struct{ v atomic.Int64 }

func (c *int64Counter) add(n int64) { c.v.Add(n) }
func (c *int64Counter) get() int64  { return c.v.Load() }
