package main

// Re-entrancy pass (internal/nohb): a verifier consults ONE parsed revocation set (CRLSet / OneCRL / disallowed
// certificate store) for every certificate it sees, from all its goroutines — verifier.Verifier holds the parsed
// sets as fields and calls Check on them per certificate, and Check is documented as a query ("Given a parsed
// CRLSet / OneCRL, check if a given cert is present"). Membership must not depend on a lookup running at the same
// time, neither in another set nor in the same one. Every ordered pair of the menu below is run as "first call to
// completion, then the second on another goroutine" WITHOUT a happens-before edge in a -race build: ThreadSanitizer
// reports every location both calls touch unsynchronised, for all interleavings at once.
//
// Menu, for each of the three formats with one model (3 issuers with 2/1/3 serials, every blocked key of the
// format's pool): Parse of the caller's own copy of the encoded set; Check on the caller's OWN parsed set with its
// own parse of a query certificate (listed, unlisted, listed under 2^64, blocked RSA key, blocked Ed25519 key,
// look-alike issuer name); and the same six Checks by both calls of a pair on ONE shared parsed set (a fresh parse
// per pair, so that anything the first lookup would write into the set is seen in every pair). Query certificates
// are never shared.

import (
	"os"
	"time"

	"github.com/zmap/zcrypto/x509"
	"github.com/zmap/zcrypto/x509/revocation/google"
	"github.com/zmap/zcrypto/x509/revocation/microsoft"
	"github.com/zmap/zcrypto/x509/revocation/mozilla"
	"verifmc/internal/ev"
	"verifmc/internal/nohb"
)

func reentrantRepoDir() string {
	if v := os.Getenv("VERIF_REPO_DIR"); v != "" {
		return v
	}
	return "/repo"
}

type reSet struct {
	crlset *google.CRLSet
	onecrl *mozilla.OneCRL
	sst    *microsoft.DisallowedCerts
}

func reParseSet(format string, enc []byte) *reSet {
	in := append([]byte{}, enc...)
	s := &reSet{}
	switch format {
	case "crlset":
		s.crlset, _ = google.Parse(in, "v-c15")
	case "onecrl":
		s.onecrl, _ = mozilla.Parse(in)
	default:
		s.sst, _ = microsoft.Parse(in)
	}
	return s
}

func (s *reSet) check(cert *x509.Certificate, issHex string) {
	switch {
	case s.crlset != nil:
		s.crlset.Check(cert, issHex)
	case s.onecrl != nil:
		s.onecrl.Check(cert)
	case s.sst != nil:
		microsoft.Check(s.sst, cert)
	}
}

func reentrantOps() []nohb.Op {
	f := buildFixtures()
	var ops []nohb.Op
	queries := []string{"leaf/ca1/1", "leaf/ca1/77", "leaf/ca3/18446744073709551616", "blocked-rsa", "blocked-ed", "leaf/ca3u/1"}
	for _, format := range []string{"crlset", "onecrl", "sst"} {
		m := &Model{Format: format, Issuers: [][]int{{0, 3}, {1}, {0, 3, 4}}}
		switch format {
		case "crlset":
			m.Blocked = 3
		case "onecrl":
			m.Blocked = 63
		}
		enc := encode(f, m)
		if s := reParseSet(format, enc); s.crlset == nil && s.onecrl == nil && s.sst == nil {
			continue // Parse refuses a well-formed set on this tree: the main phase reports that
		}
		ops = append(ops, nohb.Op{Name: format + ".Parse(own copy of " + m.String() + ")", New: func() func() {
			in := append([]byte{}, enc...)
			return func() {
				switch format {
				case "crlset":
					google.Parse(in, "v-c15")
				case "onecrl":
					mozilla.Parse(in)
				default:
					microsoft.Parse(in)
				}
			}
		}})
		shared := rePairShared(func() *reSet { return reParseSet(format, enc) })
		for _, qn := range queries {
			q := f.byName[qn]
			if q == nil {
				panic("c15 re-entrancy: no query certificate " + qn)
			}
			der, issHex := q.DER, q.IssHex
			ownCert := func() *x509.Certificate {
				c, err := x509.ParseCertificate(append([]byte{}, der...))
				if err != nil {
					return q.Z // not expected (the fixtures were parsed once already)
				}
				return c
			}
			ops = append(ops, nohb.Op{Name: format + ".Check(own parsed set, own parse of " + qn + ")", New: func() func() {
				s, c := reParseSet(format, enc), ownCert()
				return func() { s.check(c, issHex) }
			}})
			ops = append(ops, nohb.Op{Name: format + ".Check(SHARED parsed set, own parse of " + qn + ")", New: func() func() {
				s, c := shared(), ownCert()
				return func() { s.check(c, issHex) }
			}})
		}
	}
	return rePairing(ops)
}

// nohb.WorkerMain builds every pair with exactly two New calls (first call, then second call) and calls New for
// nothing else, so New calls number 2k and 2k+1 belong to pair k. rePairing counts them; rePairShared(mk) returns
// an accessor that hands both calls of a pair the same object and makes a fresh one for the next pair.
var reNewCalls int

func rePairing(ops []nohb.Op) []nohb.Op {
	for i := range ops {
		inner := ops[i].New
		ops[i].New = func() func() { reNewCalls++; return inner() }
	}
	return ops
}

func rePairShared[T any](mk func() T) func() T {
	pair, cur := -1, *new(T)
	return func() T {
		if p := (reNewCalls - 1) / 2; p != pair {
			pair, cur = p, mk()
		}
		return cur
	}
}

const reentrantMenuText = "for CRLSet, OneCRL and SST: Parse of an own copy; Check on an own parsed set and on ONE shared parsed set (fresh per pair) with own parses of 6 query certificates (listed, unlisted, 2^64 serial, blocked RSA key, blocked Ed25519 key, look-alike issuer)"

func reentrantPhase(c *ev.Ctx) {
	if c.Replay != nil {
		return // --replay re-executes one recorded witness of the main phase only
	}
	t0 := time.Now()
	o := nohb.Run(os.Getenv("VERIF_RACE_BIN"), nil, 10*time.Minute)
	if o.Broken != "" {
		c.Broken("re-entrancy pass: %s", o.Broken)
	}
	for _, sig := range o.Sigs() {
		c.Violation("re-entrancy: two calls on different goroutines share unsynchronised state: "+sig, map[string]any{"pair": o.Races[sig], "kind": "nohb"})
	}
	for k, v := range o.Panics {
		c.Violation("re-entrancy: "+k, map[string]any{"pair": v, "kind": "nohb"})
	}
	c.Outcome("re-entrancy pairs without a report", int64(o.Pairs))
	c.States.Add(int64(o.Pairs))
	c.Traces.Add(int64(o.Pairs))
	c.Set("reentrancy", map[string]any{"calls": o.Ops, "ordered_pairs": o.Pairs, "race_signatures": len(o.Races), "harness_only_reports": o.Harness, "canary_ok": o.CanaryOK,
		"seconds": time.Since(t0).Seconds(), "menu": reentrantMenuText,
		"method": "every ordered pair (a, b) of the menu: a to completion on one goroutine, then b on another, without a happens-before edge, in a -race build; a ThreadSanitizer report with both accesses in the repository is a violation"})
}
