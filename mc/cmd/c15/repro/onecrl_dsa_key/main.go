// Standalone reproducer (no harness code): mozilla.OneCRL.Check hashes
// x509.MarshalPKIXPublicKey(cert.PublicKey) and ignores its error. For a
// certificate with a DSA key (zcrypto's own x509/testdata/dsa_pk.cert) the
// re-encoding fails, SHA-256 of nothing is compared, and a OneCRL record that
// blocks exactly this certificate's subject + SHA-256(SubjectPublicKeyInfo) is
// not honoured.
//
//	cd /verif/mc && GOFLAGS=-mod=mod GOPROXY=off go run ./cmd/c15/repro/onecrl_dsa_key [repo dir]
//
// Exit status 1 = defect present.
package main

import (
	"crypto/sha256"
	"encoding/base64"
	"encoding/json"
	"encoding/pem"
	"fmt"
	"os"

	"github.com/zmap/zcrypto/x509"
	"github.com/zmap/zcrypto/x509/revocation/mozilla"
)

func main() {
	repo := "/repo"
	if len(os.Args) > 1 {
		repo = os.Args[1]
	}
	raw, err := os.ReadFile(repo + "/x509/testdata/dsa_pk.cert")
	if err != nil {
		panic(err)
	}
	if b, _ := pem.Decode(raw); b != nil {
		raw = b.Bytes
	}
	cert, err := x509.ParseCertificate(raw)
	if err != nil {
		panic(err)
	}
	h := sha256.Sum256(cert.RawSubjectPublicKeyInfo)
	doc, _ := json.Marshal(map[string]any{"data": []map[string]any{{
		"schema": 1527680137883, "enabled": true, "id": "r1", "last_modified": 1527680142883,
		"details":    map[string]string{"bug": "", "who": "", "why": "", "name": "", "created": "2018-05-30T12:35:03Z"},
		"subject":    base64.StdEncoding.EncodeToString(cert.RawSubject),
		"pubKeyHash": base64.StdEncoding.EncodeToString(h[:]),
	}}})
	set, err := mozilla.Parse(doc)
	if err != nil {
		panic(err)
	}
	fmt.Printf("key algorithm %v, %d blocked record(s) with this certificate's subject and SHA-256(SPKI)\n", cert.PublicKeyAlgorithm, len(set.Blocked))
	if got := set.Check(cert); got == nil {
		fmt.Println("DEFECT: Check = nil, the certificate blocked by subject + key hash is not reported")
		os.Exit(1)
	}
	fmt.Println("ok: reported")
}
