// Standalone reproducer (no harness code): mozilla.OneCRL.Check and
// microsoft.Check find the issuer's list by pkix.Name.String(). Two issuer
// names with the same attribute values but different DER (here: UTF8String
// instead of PrintableString values) render identically, so a certificate of
// issuer B is reported as revoked because issuer A + the same serial is listed.
// OneCRL identifies an issuer by the DER of its name (issuerName = base64 DER),
// the Microsoft store holds whole certificates: B's certificate is in neither.
//
//	cd /verif/mc && GOFLAGS=-mod=mod GOPROXY=off go run ./cmd/c15/repro/name-encoding
//
// exit 1 = defect present (false "revoked"), exit 0 = only A's certificate is reported.
package main

import (
	"bytes"
	"crypto/ed25519"
	"crypto/rand"
	stdasn1 "encoding/asn1"
	"encoding/base64"
	"encoding/binary"
	"fmt"
	"math/big"
	"os"
	"time"

	"github.com/zmap/zcrypto/x509"
	"github.com/zmap/zcrypto/x509/revocation/microsoft"
	"github.com/zmap/zcrypto/x509/revocation/mozilla"
)

type atv struct {
	Type  stdasn1.ObjectIdentifier
	Value stdasn1.RawValue
}
type rdnSET []atv

func name(tag int) []byte {
	der, err := stdasn1.Marshal([]rdnSET{
		{{Type: stdasn1.ObjectIdentifier{2, 5, 4, 3}, Value: stdasn1.RawValue{Tag: tag, Bytes: []byte("Rev CA")}}},
		{{Type: stdasn1.ObjectIdentifier{2, 5, 4, 10}, Value: stdasn1.RawValue{Tag: tag, Bytes: []byte("Org")}}},
	})
	if err != nil {
		panic(err)
	}
	return der
}

func mint(rawSubject []byte, serial int64, parent *x509.Certificate, parentKey ed25519.PrivateKey) (*x509.Certificate, ed25519.PrivateKey) {
	pub, key, _ := ed25519.GenerateKey(rand.Reader)
	t := &x509.Certificate{SerialNumber: big.NewInt(serial), RawSubject: rawSubject, NotBefore: time.Now().Add(-time.Hour), NotAfter: time.Now().Add(time.Hour),
		BasicConstraintsValid: true, IsCA: parent == nil}
	p, pk := t, key
	if parent != nil {
		p, pk = parent, parentKey
	}
	der, err := x509.CreateCertificate(rand.Reader, t, p, pub, pk)
	if err != nil {
		panic(err)
	}
	c, err := x509.ParseCertificate(der)
	if err != nil {
		panic(err)
	}
	return c, key
}

func main() {
	caA, keyA := mint(name(19), 1, nil, nil) // PrintableString values
	caB, keyB := mint(name(12), 2, nil, nil) // UTF8String values
	leafName, _ := stdasn1.Marshal([]rdnSET{{{Type: stdasn1.ObjectIdentifier{2, 5, 4, 3}, Value: stdasn1.RawValue{Tag: 19, Bytes: []byte("leaf")}}}})
	leafA, _ := mint(leafName, 4660, caA, keyA)
	leafB, _ := mint(leafName, 4660, caB, keyB)
	fmt.Printf("issuer A DER %x\nissuer B DER %x\nrendered: %q vs %q\n", leafA.RawIssuer, leafB.RawIssuer, leafA.Issuer.String(), leafB.Issuer.String())
	if bytes.Equal(leafA.RawIssuer, leafB.RawIssuer) {
		panic("fixture: issuer names do not differ")
	}
	bad := 0

	// OneCRL listing (issuer A, serial 0x1234)
	doc := fmt.Sprintf(`{"data":[{"schema":1527680137883,"details":{"bug":"b","who":"w","why":"","name":"","created":"2018-05-30T12:35:03Z"},"enabled":true,"issuerName":%q,"serialNumber":%q,"id":"x","last_modified":1527680142883}]}`,
		base64.StdEncoding.EncodeToString(leafA.RawIssuer), base64.StdEncoding.EncodeToString(leafA.SerialNumber.Bytes()))
	one, err := mozilla.Parse([]byte(doc))
	if err != nil {
		panic(err)
	}
	a, b := one.Check(leafA) != nil, one.Check(leafB) != nil
	fmt.Printf("OneCRL lists (A, 0x1234): Check(leaf of A) revoked=%v, Check(leaf of B) revoked=%v\n", a, b)
	if !a || b {
		bad++
	}

	// SST holding leaf A
	var sst bytes.Buffer
	le := func(v uint32) { binary.Write(&sst, binary.LittleEndian, v) }
	le(0)
	sst.WriteString("CERT")
	le(0x20)
	le(1)
	le(uint32(len(leafA.Raw)))
	sst.Write(leafA.Raw)
	le(0)
	binary.Write(&sst, binary.LittleEndian, uint64(0))
	dis, err := microsoft.Parse(sst.Bytes())
	if err != nil {
		panic(err)
	}
	a, b = microsoft.Check(dis, leafA) != nil, microsoft.Check(dis, leafB) != nil
	fmt.Printf("SST holds leaf of A:      Check(leaf of A) revoked=%v, Check(leaf of B) revoked=%v\n", a, b)
	if !a || b {
		bad++
	}
	if bad > 0 {
		fmt.Println("DEFECT: a certificate of another issuer (different DER name) is reported as revoked")
		os.Exit(1)
	}
}
