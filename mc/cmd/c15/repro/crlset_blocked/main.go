// Standalone reproducer for the C15 finding: CRLSet.Check never honours the
// BlockedSPKIs of a real CRLSet, because Parse keeps them in the file's base64
// form while Check compares them with the hex issuer-SPKI hash that keys
// IssuerLists (and that verifier.go passes).
//
//	cd /verif/mc && GOFLAGS=-mod=mod GOPROXY=off go run ./cmd/c15/repro/crlset_blocked [path/to/crl-set]
//
// Exit status 1 = defect present.
package main

import (
	"encoding/base64"
	"encoding/hex"
	"fmt"
	"math/big"
	"os"

	"github.com/zmap/zcrypto/x509"
	"github.com/zmap/zcrypto/x509/revocation/google"
)

func main() {
	path := "/repo/x509/revocation/google/testdata/crl-set-6375" // Chrome's published set, shipped as zcrypto test data
	if len(os.Args) > 1 {
		path = os.Args[1]
	}
	raw, err := os.ReadFile(path)
	if err != nil {
		panic(err)
	}
	set, err := google.Parse(raw, "6375")
	if err != nil {
		panic(err)
	}
	fmt.Printf("parsed: %d issuer lists, %d blocked SPKIs, first blocked = %q\n", len(set.IssuerLists), len(set.BlockedSPKIs), set.BlockedSPKIs[0])
	for k := range set.IssuerLists {
		fmt.Printf("an IssuerLists key (hex SHA-256 of issuer SPKI): %s\n", k)
		break
	}
	hash, err := base64.StdEncoding.DecodeString(set.BlockedSPKIs[0])
	if err != nil || len(hash) != 32 {
		panic("blocked SPKI is not base64(SHA-256)")
	}
	issuerSPKIHash := hex.EncodeToString(hash) // the form IssuerLists is keyed by, and what verifier.go passes
	cert := &x509.Certificate{SerialNumber: big.NewInt(12345)}
	got := set.Check(cert, issuerSPKIHash)
	fmt.Printf("Check(cert, %s) = %v   (the issuer's SPKI is in BlockedSPKIs: want non-nil)\n", issuerSPKIHash, got)
	if got == nil {
		fmt.Println("DEFECT: a certificate issued under a blocked SPKI is not reported")
		os.Exit(1)
	}
	fmt.Println("ok")
}
