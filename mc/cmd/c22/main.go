// C22 — distinguished names round-trip through RDN sequences.
//
// Engine E2 (G-field): bounded-exhaustive enumeration of pkix.Name values and
// of harness-assembled DER names.
//
// Direction 1 (statement sentence 1): every Name over the 15 attribute fields
// ToRDNSequence emits plus ExtraNames, with at most d fields non-default, goes
// Name → ToRDNSequence → zcrypto asn1.Marshal → zcrypto asn1.Unmarshal →
// FillFromRDNSequence; every multi-valued field must come back as the same
// MULTISET of values, the single-valued fields exactly. The same DER is decoded
// independently with Go's standard encoding/asn1 + crypto/x509/pkix and must
// carry exactly the attribute (OID, value) pairs of the Name, where the OIDs
// come from a table typed from X.520 / RFC 4519 / PKCS#9 / the EV guidelines /
// ETSI EN 319 412-1 in this file (never read from zcrypto).
//
// Direction 2 (sentence 2): DER names assembled by the harness' own DER writer
// (multi-valued RDNs in arbitrary order, unknown OIDs, non-string values, empty
// RDNs, every ASN.1 string type) are parsed (zcrypto asn1.Unmarshal, and the
// cryptobyte parser x509.parseName used by ParseRevocationList), filled into a
// Name and converted back: the result must be the parsed sequence. The two
// zcrypto parsers must agree wherever both accept.
package main

import (
	stdpkix "crypto/x509/pkix"
	stdasn1 "encoding/asn1"
	"encoding/hex"
	"encoding/json"
	"fmt"
	"reflect"
	"sort"
	"strconv"
	"strings"
	"sync"
	"time"

	zasn1 "github.com/zmap/zcrypto/encoding/asn1"
	zx509 "github.com/zmap/zcrypto/x509"
	zpkix "github.com/zmap/zcrypto/x509/pkix"
	"verifmc/internal/ev"
	"verifmc/internal/nohb"
)

// ------------------------------------------------------------------ tables

// value alphabet (DESIGN C22): printable, space, UTF-8, '@', '*', '#', ',',
// the 64-character upper bound of most X.520 attributes, leading space.
//
// Indices 9.. (strengthening): every character of the X.680 PrintableString
// punctuation set in one value, the characters Go's encoder deliberately keeps
// out of PrintableString ('*', '&') and two that were never in it ('@', '_'),
// each alone so that the value's string type depends on that character only,
// a 128-byte value (long-form DER length), a 3-byte-per-rune and a 4-byte-per-rune
// UTF-8 value, and the empty string (multi-valued fields only: an empty
// single-valued field IS the default).
var V = []string{"A", "a b", "é", "a@b.c", "*.x", "#1", "a,b", strings.Repeat("x", 64), " lead",
	"&", "_", "'()+-/:=?", "*", "@", strings.Repeat("x", 128), "日本", "😀", "",
	// indices 18..: the rune part of the alphabet, built by rule instead of by example. For each UTF-8
	// length class (2, 3, 4 octets) one rune whose LOW BYTE (rune & 0xff) is a PrintableString character
	// and one whose low byte is not — an encoder that classifies a rune by anything less than the whole
	// rune picks the wrong string type for one of them — alone and mixed with ASCII, plus the Latin-1
	// boundary runes U+0080, U+00FF, U+0100.
	"\u0141",       // 18: 'Ł' 2 octets, low byte 0x41 'A'
	"\u03a3",       // 19: 'Σ' 2 octets, low byte 0xa3
	"\u4e2d",       // 20: '中' 3 octets, low byte 0x2d '-'
	"\u263a",       // 21: '☺' 3 octets, low byte 0x3a ':'
	"\u65e5",       // 22: '日' 3 octets, low byte 0xe5
	"\U0001f441",   // 23: 4 octets, low byte 0x41 'A'
	"\u0141ask",    // 24: "Łask"
	"smile \u263a", // 25
	"\u0080",       // 26: first rune beyond ASCII
	"\u00ff",       // 27: last Latin-1 rune
	"\u0100",       // 28: low byte 0x00
}

// invalidUTF8 is outside the statement's domain ("printable, UTF-8 and
// special-character values"): the encoder is documented (Go encoding/asn1 and
// the fork alike: "asn1: string not valid UTF-8") to refuse it. Accepted
// behaviours: Marshal returns an error, or the value round-trips unchanged.
const invalidUTF8 = "\xff"

type fieldDef struct {
	name    string
	oid     string // dotted; from the standards, not from zcrypto
	single  bool
	emitted bool // ToRDNSequence emits it (read from x509/pkix/pkix.go)
	mv      func(*zpkix.Name) *[]string
	sv      func(*zpkix.Name) *string
	stdmv   func(*stdpkix.Name) []string // nil: the standard library has no such field
	stdsv   func(*stdpkix.Name) string
}

const (
	oidCN      = "2.5.4.3"  // X.520 commonName
	oidSurname = "2.5.4.4"  // X.520 surname
	oidSerial  = "2.5.4.5"  // X.520 serialNumber
	oidC       = "2.5.4.6"  // X.520 countryName
	oidL       = "2.5.4.7"  // X.520 localityName
	oidST      = "2.5.4.8"  // X.520 stateOrProvinceName
	oidStreet  = "2.5.4.9"  // X.520 streetAddress
	oidO       = "2.5.4.10" // X.520 organizationName
	oidOU      = "2.5.4.11" // X.520 organizationalUnitName
	oidPostal  = "2.5.4.17" // X.520 postalCode
	oidGiven   = "2.5.4.42" // X.520 givenName
	oidOrgID   = "2.5.4.97" // X.520 organizationIdentifier (ETSI EN 319 412-1)
	oidDC      = "0.9.2342.19200300.100.1.25"
	oidEmail   = "1.2.840.113549.1.9.1"
	oidJurL    = "1.3.6.1.4.1.311.60.2.1.1"
	oidJurST   = "1.3.6.1.4.1.311.60.2.1.2"
	oidJurC    = "1.3.6.1.4.1.311.60.2.1.3"
	oidUnknown = "1.2.3.4"
)

// Order = order of emission in ToRDNSequence (only used for reporting order).
var fields = []fieldDef{
	{name: "CommonName", oid: oidCN, single: true, emitted: true, sv: func(n *zpkix.Name) *string { return &n.CommonName }, stdsv: func(n *stdpkix.Name) string { return n.CommonName }},
	{name: "EmailAddress", oid: oidEmail, emitted: true, mv: func(n *zpkix.Name) *[]string { return &n.EmailAddress }},
	{name: "OrganizationalUnit", oid: oidOU, emitted: true, mv: func(n *zpkix.Name) *[]string { return &n.OrganizationalUnit }, stdmv: func(n *stdpkix.Name) []string { return n.OrganizationalUnit }},
	{name: "Organization", oid: oidO, emitted: true, mv: func(n *zpkix.Name) *[]string { return &n.Organization }, stdmv: func(n *stdpkix.Name) []string { return n.Organization }},
	{name: "StreetAddress", oid: oidStreet, emitted: true, mv: func(n *zpkix.Name) *[]string { return &n.StreetAddress }, stdmv: func(n *stdpkix.Name) []string { return n.StreetAddress }},
	{name: "Locality", oid: oidL, emitted: true, mv: func(n *zpkix.Name) *[]string { return &n.Locality }, stdmv: func(n *stdpkix.Name) []string { return n.Locality }},
	{name: "Province", oid: oidST, emitted: true, mv: func(n *zpkix.Name) *[]string { return &n.Province }, stdmv: func(n *stdpkix.Name) []string { return n.Province }},
	{name: "PostalCode", oid: oidPostal, emitted: true, mv: func(n *zpkix.Name) *[]string { return &n.PostalCode }, stdmv: func(n *stdpkix.Name) []string { return n.PostalCode }},
	{name: "Country", oid: oidC, emitted: true, mv: func(n *zpkix.Name) *[]string { return &n.Country }, stdmv: func(n *stdpkix.Name) []string { return n.Country }},
	{name: "DomainComponent", oid: oidDC, emitted: true, mv: func(n *zpkix.Name) *[]string { return &n.DomainComponent }},
	{name: "JurisdictionLocality", oid: oidJurL, emitted: true, mv: func(n *zpkix.Name) *[]string { return &n.JurisdictionLocality }},
	{name: "JurisdictionProvince", oid: oidJurST, emitted: true, mv: func(n *zpkix.Name) *[]string { return &n.JurisdictionProvince }},
	{name: "JurisdictionCountry", oid: oidJurC, emitted: true, mv: func(n *zpkix.Name) *[]string { return &n.JurisdictionCountry }},
	{name: "OrganizationIDs", oid: oidOrgID, emitted: true, mv: func(n *zpkix.Name) *[]string { return &n.OrganizationIDs }},
	{name: "SerialNumber", oid: oidSerial, single: true, emitted: true, sv: func(n *zpkix.Name) *string { return &n.SerialNumber }, stdsv: func(n *stdpkix.Name) string { return n.SerialNumber }},
	// filled by FillFromRDNSequence but never emitted from the field: only ExtraNames can put them on the wire
	{name: "GivenName", oid: oidGiven, mv: func(n *zpkix.Name) *[]string { return &n.GivenName }},
	{name: "Surname", oid: oidSurname, mv: func(n *zpkix.Name) *[]string { return &n.Surname }},
}

const extraField = -1 // pseudo field index of ExtraNames in a choice

// xatv is one ExtraNames entry of the harness (value: string, int64 or []byte).
type xatv struct {
	OID string
	Val any
}

type alt struct {
	Vals  []string // multi-valued: the list; single-valued: one element
	Extra []xatv
	Core  bool // member of the reduced alternative set (quick tier, 3 non-default fields)
	Full  bool // member of the two-element set used by the item with ALL fields non-default
	Solo  bool // quick tier: enumerated alone (one non-default field) and not in the 2-field products (thorough: everywhere)
	Bad   bool // holds invalidUTF8
}

func multiAlts() []alt {
	var out []alt
	// quick tier: of the values added by the strengthening, "*", 128 x, "😀" and "" also take part in
	// the 2-field products; the others (and their pairs / duplicates) are enumerated with one non-default field.
	pair2 := func(i int) bool { return i < 9 || i == 12 || i == 14 || i == 16 || i == 17 || i == 18 || i == 23 }
	for i, v := range V {
		out = append(out, alt{Vals: []string{v}, Core: i == 0 || i == 2 || i == 4 || i == 8, Full: i == 2, Solo: !pair2(i)})
	}
	for i := range V { // two different values; half of them are permuted by the DER SET-OF sort
		out = append(out, alt{Vals: []string{V[(i+1)%len(V)], V[i]}, Core: i == 0 || i == 2 || i == 7, Solo: i >= 8})
	}
	for i, v := range V { // duplicate value inside one RDN
		out = append(out, alt{Vals: []string{v, v}, Core: i == 5 || i == 7, Solo: i >= 9})
	}
	// three values, prefix-related pairs ("a" is a prefix of "ab"): the DER SET OF
	// sort compares the ENCODINGS (length octet first), i.e. a, b, ab — neither
	// the given order nor the lexical order of the values.
	out = append(out,
		alt{Vals: []string{"b", "a", "ab"}, Full: true},
		alt{Vals: []string{"ab", "b", "a"}, Solo: true},
		alt{Vals: []string{"a", "ab", "b"}, Solo: true},
		alt{Vals: []string{"a", "ab", "a"}, Solo: true},
		alt{Vals: []string{"é", "e", "éa"}, Solo: true}, // PrintableString and UTF8String elements in one SET
		alt{Vals: []string{}},                           // empty, non-nil slice: nothing is emitted
		alt{Vals: []string{invalidUTF8}, Bad: true},
		alt{Vals: []string{"a", invalidUTF8}, Bad: true, Solo: true},
	)
	return out
}

func singleAlts() []alt {
	var out []alt
	for i, v := range V {
		if v == "" {
			continue // the default of a single-valued field
		}
		out = append(out, alt{Vals: []string{v}, Core: i == 0 || i == 2 || i == 4 || i == 7 || i == 8, Full: i == 0 || i == 15, Solo: i >= 9 && i != 12 && i != 14 && i != 16 && i != 18 && i != 23})
	}
	out = append(out, alt{Vals: []string{invalidUTF8}, Bad: true})
	return out
}

func extraAlts() []alt {
	var out []alt
	for i, v := range V {
		out = append(out, alt{Extra: []xatv{{oidUnknown, v}}, Core: i == 0 || i == 2, Full: i == 2, Solo: i >= 9})
	}
	for i, v := range V { // duplicates the multi-valued field Organization
		out = append(out, alt{Extra: []xatv{{oidO, v}}, Core: i == 2 || i == 0, Solo: i >= 9 && i != 17})
	}
	for i, v := range V { // duplicates the single-valued field CommonName
		out = append(out, alt{Extra: []xatv{{oidCN, v}}, Core: i == 1 || i == 2, Solo: i >= 9 && i != 17})
	}
	out = append(out,
		alt{Extra: []xatv{{oidSerial, "A"}}},
		alt{Extra: []xatv{{oidDC, "A"}}},
		alt{Extra: []xatv{{oidJurC, "A"}}},
		alt{Extra: []xatv{{oidOrgID, "é"}}},
		alt{Extra: []xatv{{oidGiven, "A"}}},   // a field Fill knows but ToRDNSequence never emits
		alt{Extra: []xatv{{oidSurname, "é"}}}, // idem
		alt{Extra: []xatv{{oidUnknown, "A"}, {oidO, "a b"}}, Core: true},
		alt{Extra: []xatv{{oidO, "A"}, {oidUnknown, "é"}}},
		alt{Extra: []xatv{{oidO, "b"}, {oidO, "a"}}},
		alt{Extra: []xatv{{oidUnknown, int64(5)}}, Core: true, Full: true}, // non-string value
		alt{Extra: []xatv{{oidUnknown, []byte{1, 2}}}},         // non-string value
		alt{Extra: []xatv{{oidO, int64(7)}}},                   // non-string value under a standard OID
		alt{Extra: []xatv{{"2.5.4.99", "A"}}, Core: false},     // unknown OID inside the X.520 arc
		alt{Extra: []xatv{{"2.5.4.3.1", "A"}}, Core: false},    // 5-arc OID with a known 4-arc prefix
		alt{Extra: []xatv{{oidCN, "b"}, {oidCN, "a"}, {oidCN, "ab"}}}, // three CommonNames: last one wins
		alt{Extra: []xatv{{oidSerial, "b"}, {oidSerial, "a"}}},
		alt{Extra: []xatv{{oidUnknown, invalidUTF8}}, Bad: true},
	)
	return out
}

// enumerated fields of direction 1: the 15 emitted attribute fields + ExtraNames.
type enumField struct {
	idx  int // index into fields, or extraField
	alts []alt
}

func enumFields() []enumField {
	var out []enumField
	for i, f := range fields {
		if !f.emitted {
			continue
		}
		if f.single {
			out = append(out, enumField{i, singleAlts()})
		} else {
			out = append(out, enumField{i, multiAlts()})
		}
	}
	out = append(out, enumField{extraField, extraAlts()})
	return out
}

type choice struct {
	F int `json:"f"` // index into enumFields()
	A int `json:"a"` // index into its alternatives
	// Len, when set, replaces alternative A by values built from their lengths only (size pass): each pair is
	// {count, length}: count values of that many 'x'.
	Len [][2]int `json:"len,omitempty"`
}

// lenVals expands the {count, length} pairs of a size-pass choice.
func lenVals(l [][2]int) []string {
	var out []string
	for _, p := range l {
		for i := 0; i < p[0]; i++ {
			out = append(out, strings.Repeat("x", p[1]))
		}
	}
	return out
}

// contentLengths collects the content length of every TLV of der down to the attribute values (4 levels:
// RDNSequence, RDN, AttributeTypeAndValue, type/value), keyed by level.
func contentLengths(der []byte, level int, into map[int]map[int]bool) {
	for len(der) > 0 {
		tag, content, rest, err := readTLV(der)
		if err != nil {
			return
		}
		if into[level] == nil {
			into[level] = map[int]bool{}
		}
		into[level][len(content)] = true
		if tag&0x20 != 0 && level < 3 {
			contentLengths(content, level+1, into)
		}
		der = rest
	}
}

// ------------------------------------------------------------------ helpers

func parseOID(s string) []int {
	var out []int
	for _, p := range strings.Split(s, ".") {
		n, err := strconv.Atoi(p)
		if err != nil {
			panic("bad oid " + s)
		}
		out = append(out, n)
	}
	return out
}

func oidStr(o []int) string {
	var b strings.Builder
	for i, n := range o {
		if i > 0 {
			b.WriteByte('.')
		}
		b.WriteString(strconv.Itoa(n))
	}
	return b.String()
}

// normVal renders an attribute value of either library canonically.
func normVal(v any) string {
	switch x := v.(type) {
	case nil:
		return "nil"
	case string:
		return "s:" + x
	case int64:
		return "i:" + strconv.FormatInt(x, 10)
	case int:
		return "i:" + strconv.Itoa(x)
	case []byte:
		return "o:" + hex.EncodeToString(x)
	case zasn1.BitString:
		return fmt.Sprintf("bits:%d:%x", x.BitLength, x.Bytes)
	case stdasn1.BitString:
		return fmt.Sprintf("bits:%d:%x", x.BitLength, x.Bytes)
	case zasn1.ObjectIdentifier:
		return "oid:" + oidStr(x)
	case stdasn1.ObjectIdentifier:
		return "oid:" + oidStr(x)
	case time.Time:
		return "t:" + x.UTC().Format(time.RFC3339)
	}
	return fmt.Sprintf("%T:%v", v, v)
}

type pair struct{ oid, val string }

func normZ(seq zpkix.RDNSequence) [][]pair {
	out := make([][]pair, len(seq))
	for i, rdn := range seq {
		for _, a := range rdn {
			out[i] = append(out[i], pair{oidStr(a.Type), normVal(a.Value)})
		}
	}
	return out
}

func normS(seq stdpkix.RDNSequence) [][]pair {
	out := make([][]pair, len(seq))
	for i, rdn := range seq {
		for _, a := range rdn {
			out[i] = append(out[i], pair{oidStr(a.Type), normVal(a.Value)})
		}
	}
	return out
}

func showSeq(s [][]pair) string {
	var b strings.Builder
	b.WriteByte('[')
	for i, r := range s {
		if i > 0 {
			b.WriteByte(' ')
		}
		b.WriteByte('{')
		for j, p := range r {
			if j > 0 {
				b.WriteString(" + ")
			}
			v := p.val
			if len(v) > 24 {
				v = v[:24] + "…"
			}
			b.WriteString(p.oid + "=" + v)
		}
		b.WriteByte('}')
	}
	b.WriteByte(']')
	return b.String()
}

// samePairsExact: same RDNs, same order inside each RDN (nil RDN == empty RDN).
func samePairsExact(a, b [][]pair) bool {
	if len(a) != len(b) {
		return false
	}
	for i := range a {
		if len(a[i]) != len(b[i]) {
			return false
		}
		for j := range a[i] {
			if a[i][j] != b[i][j] {
				return false
			}
		}
	}
	return true
}

func sortedPairs(r []pair) []pair {
	c := append([]pair(nil), r...)
	sort.Slice(c, func(i, j int) bool {
		if c[i].oid != c[j].oid {
			return c[i].oid < c[j].oid
		}
		return c[i].val < c[j].val
	})
	return c
}

// samePairsPerRDN: same RDNs in the same order, every RDN the same multiset.
func samePairsPerRDN(a, b [][]pair) (same, permuted bool) {
	if len(a) != len(b) {
		return false, false
	}
	for i := range a {
		if len(a[i]) != len(b[i]) {
			return false, false
		}
		x, y := sortedPairs(a[i]), sortedPairs(b[i])
		for j := range x {
			if x[j] != y[j] {
				return false, false
			}
			if a[i][j] != b[i][j] {
				permuted = true
			}
		}
	}
	return true, permuted
}

func msEq(a, b []string) bool {
	if len(a) != len(b) {
		return false
	}
	x := append([]string(nil), a...)
	y := append([]string(nil), b...)
	sort.Strings(x)
	sort.Strings(y)
	for i := range x {
		if x[i] != y[i] {
			return false
		}
	}
	return true
}

func contains(l []string, s string) bool {
	for _, x := range l {
		if x == s {
			return true
		}
	}
	return false
}

// acceptMulti: the values of one attribute type after the round trip.
// own = the values of the Name's field, ext = ExtraNames values of the same OID.
// ExtraNames are "copied raw into any marshaled distinguished name"; the struct
// comment says they override, zcrypto's converter appends. The statement is
// silent: both are accepted.
func acceptMulti(got, own, ext []string) bool {
	if msEq(got, append(append([]string(nil), own...), ext...)) {
		return true
	}
	return len(ext) > 0 && msEq(got, ext)
}

// acceptSingle: a single-valued field. Without ExtraNames of the same OID it is
// exact; with them either value is accepted (the statement does not say which of
// several attributes of one type a single-valued field shows).
func acceptSingle(got string, own, ext []string) bool {
	if len(own)+len(ext) == 0 {
		return got == ""
	}
	if len(ext) == 0 {
		return got == own[0]
	}
	return contains(own, got) || contains(ext, got)
}

func copyVal(v any) any {
	switch x := v.(type) {
	case []byte:
		return append([]byte{}, x...)
	case zasn1.BitString:
		return zasn1.BitString{Bytes: append([]byte{}, x.Bytes...), BitLength: x.BitLength}
	case zasn1.ObjectIdentifier:
		return append(zasn1.ObjectIdentifier{}, x...)
	}
	return v
}

func copySeq(s zpkix.RDNSequence) zpkix.RDNSequence {
	if s == nil {
		return nil
	}
	out := make(zpkix.RDNSequence, len(s))
	for i, r := range s {
		if r == nil {
			continue
		}
		out[i] = make(zpkix.RelativeDistinguishedNameSET, len(r))
		for j, a := range r {
			out[i][j] = zpkix.AttributeTypeAndValue{Type: append(zasn1.ObjectIdentifier{}, a.Type...), Value: copyVal(a.Value)}
		}
	}
	return out
}

// sameSeq: "that same sequence": same RDNs, same attributes in the same order,
// types and values deep-equal; a nil slice and an empty slice are the same
// (empty) sequence / RDN.
func sameSeq(a, b zpkix.RDNSequence) (bool, string) {
	if len(a) != len(b) {
		return false, fmt.Sprintf("%d RDNs instead of %d", len(a), len(b))
	}
	for i := range a {
		if len(a[i]) != len(b[i]) {
			return false, "RDN grouping differs"
		}
		for j := range a[i] {
			if !a[i][j].Type.Equal(b[i][j].Type) {
				return false, "attribute types differ or are reordered"
			}
			if !reflect.DeepEqual(a[i][j].Value, b[i][j].Value) {
				return false, "attribute values differ or are reordered"
			}
		}
	}
	return true, ""
}

// ------------------------------------------------------------------ own DER writer / reader (direction 2)

func derLen(n int) []byte {
	if n < 128 {
		return []byte{byte(n)}
	}
	var b []byte
	for m := n; m > 0; m >>= 8 {
		b = append([]byte{byte(m)}, b...)
	}
	return append([]byte{0x80 | byte(len(b))}, b...)
}

func tlv(tag byte, content []byte) []byte {
	out := append([]byte{tag}, derLen(len(content))...)
	return append(out, content...)
}

func b128(n int) []byte {
	out := []byte{byte(n & 0x7f)}
	for n >>= 7; n > 0; n >>= 7 {
		out = append([]byte{byte(n&0x7f) | 0x80}, out...)
	}
	return out
}

func encOID(o []int) []byte {
	out := b128(o[0]*40 + o[1])
	for _, n := range o[2:] {
		out = append(out, b128(n)...)
	}
	return out
}

type atom struct {
	oid     string
	tag     byte
	content []byte
}

func (a atom) der() []byte {
	return tlv(0x30, append(tlv(0x06, encOID(parseOID(a.oid))), tlv(a.tag, a.content)...))
}

func rdnDER(as []atom) []byte {
	var c []byte
	for _, a := range as {
		c = append(c, a.der()...)
	}
	return tlv(0x31, c)
}

func nameDER(rdns [][]atom) []byte {
	var c []byte
	for _, r := range rdns {
		c = append(c, rdnDER(r)...)
	}
	return tlv(0x30, c)
}

// readTLV: single-byte tags, definite lengths.
func readTLV(b []byte) (tag byte, content, rest []byte, err error) {
	if len(b) < 2 {
		return 0, nil, nil, fmt.Errorf("short")
	}
	tag = b[0]
	if tag&0x1f == 0x1f {
		return 0, nil, nil, fmt.Errorf("high tag number")
	}
	n := int(b[1])
	off := 2
	if n&0x80 != 0 {
		k := n & 0x7f
		if k == 0 || k > 4 || len(b) < 2+k {
			return 0, nil, nil, fmt.Errorf("length")
		}
		n = 0
		for i := 0; i < k; i++ {
			n = n<<8 | int(b[2+i])
		}
		off += k
	}
	if len(b) < off+n {
		return 0, nil, nil, fmt.Errorf("truncated")
	}
	return tag, b[off : off+n], b[off+n:], nil
}

func decOID(b []byte) (string, error) {
	var arcs []int
	n := 0
	for i, c := range b {
		n = n<<7 | int(c&0x7f)
		if c&0x80 == 0 {
			arcs = append(arcs, n)
			n = 0
		} else if i == len(b)-1 {
			return "", fmt.Errorf("oid truncated")
		}
	}
	if len(arcs) == 0 {
		return "", fmt.Errorf("empty oid")
	}
	first := arcs[0]
	var out []int
	switch {
	case first < 40:
		out = []int{0, first}
	case first < 80:
		out = []int{1, first - 40}
	default:
		out = []int{2, first - 80}
	}
	return oidStr(append(out, arcs[1:]...)), nil
}

// walkName is the harness' own structural reading of Name ::= SEQUENCE OF SET OF SEQUENCE { OID, ANY }.
func walkName(der []byte) ([][]atom, error) {
	tag, body, rest, err := readTLV(der)
	if err != nil || tag != 0x30 || len(rest) != 0 {
		return nil, fmt.Errorf("outer")
	}
	out := [][]atom{}
	for len(body) > 0 {
		var set []byte
		tag, set, body, err = readTLV(body)
		if err != nil || tag != 0x31 {
			return nil, fmt.Errorf("set")
		}
		rdn := []atom{}
		for len(set) > 0 {
			var atv []byte
			tag, atv, set, err = readTLV(set)
			if err != nil || tag != 0x30 {
				return nil, fmt.Errorf("atv")
			}
			var oidb, val []byte
			tag, oidb, atv, err = readTLV(atv)
			if err != nil || tag != 0x06 {
				return nil, fmt.Errorf("oid")
			}
			o, err := decOID(oidb)
			if err != nil {
				return nil, err
			}
			var vtag byte
			vtag, val, atv, err = readTLV(atv)
			if err != nil || len(atv) != 0 {
				return nil, fmt.Errorf("value")
			}
			rdn = append(rdn, atom{o, vtag, val})
		}
		out = append(out, rdn)
	}
	return out, nil
}

// string types whose Go string value is, by X.690, exactly the content octets
// (for content the decoder accepts): PrintableString, UTF8String, IA5String, NumericString.
func plainStringTag(t byte) bool { return t == 0x13 || t == 0x0c || t == 0x16 || t == 0x12 }

// ------------------------------------------------------------------ independent expectations (strengthening)

// printableX680 is the PrintableString alphabet of X.680 §41.4 (Table 10):
// A-Z a-z 0-9 space ' ( ) + , - . / : = ?   — typed from the standard. Go's
// encoding/asn1.Marshal (and the fork, whose marshal.go says the same) documents:
// a string without an explicit type is "a PrintableString if the character set
// in the string is sufficiently limited, otherwise ... a UTF8String"; '*' and
// '&', tolerated when PARSING, are rejected when choosing the type.
func printableX680(s []byte) bool {
	for _, b := range s {
		switch {
		case 'a' <= b && b <= 'z', 'A' <= b && b <= 'Z', '0' <= b && b <= '9':
		case b == ' ', b == '\'', b == '(', b == ')', b == '+', b == ',', b == '-', b == '.', b == '/', b == ':', b == '=', b == '?':
		default:
			return false
		}
	}
	return true
}

// bytesLessDER: X.690 §11.6 — the encodings of the elements of a SET OF are
// compared as octet strings, the shorter one padded with trailing zero octets.
func bytesLessOrEqualDER(a, b []byte) bool {
	n := len(a)
	if len(b) > n {
		n = len(b)
	}
	for i := 0; i < n; i++ {
		var x, y byte
		if i < len(a) {
			x = a[i]
		}
		if i < len(b) {
			y = b[i]
		}
		if x != y {
			return x < y
		}
	}
	return true
}

func flatten(seq zpkix.RDNSequence) []zpkix.AttributeTypeAndValue {
	var out []zpkix.AttributeTypeAndValue
	for _, r := range seq {
		out = append(out, r...)
	}
	return out
}

func strEq(a, b []string) bool {
	if len(a) != len(b) {
		return false
	}
	for i := range a {
		if a[i] != b[i] {
			return false
		}
	}
	return true
}

// checkFilled: what FillFromRDNSequence documents ("Multi-entry RDNs are
// flattened, all entries are added to the relevant n fields"; "Names contains
// all parsed attributes"; "The ExtraNames field is not populated when parsing"):
// n was a zero Name filled from a sequence whose deep copy (taken BEFORE the
// fill) is snap. Every list is compared IN ORDER with the flattened sequence;
// a single-valued field holds the LAST attribute of its type — the choice of
// Go's crypto/x509/pkix.Name.FillFromRDNSequence, of which this type is a fork
// (CommonNames / SerialNumbers hold all of them).
func checkFilled(n *zpkix.Name, snap zpkix.RDNSequence) (what, detail string) {
	flat := flatten(snap)
	if len(n.Names) != len(flat) {
		return "Names is not the flattened sequence", fmt.Sprintf("%d entries, sequence has %d attributes", len(n.Names), len(flat))
	}
	by := map[string][]string{}
	for i, a := range flat {
		if !n.Names[i].Type.Equal(a.Type) || !reflect.DeepEqual(n.Names[i].Value, a.Value) {
			return "Names is not the flattened sequence", fmt.Sprintf("entry %d is %s=%s, sequence has %s=%s", i, oidStr(n.Names[i].Type), normVal(n.Names[i].Value), oidStr(a.Type), normVal(a.Value))
		}
		if s, ok := a.Value.(string); ok {
			o := oidStr(a.Type)
			by[o] = append(by[o], s)
		}
	}
	if len(n.ExtraNames) != 0 {
		return "ExtraNames populated by FillFromRDNSequence", fmt.Sprintf("%d entries", len(n.ExtraNames))
	}
	for _, f := range fields {
		want := by[f.oid]
		if f.single {
			w := ""
			if len(want) > 0 {
				w = want[len(want)-1]
			}
			if g := *f.sv(n); g != w {
				return "single-valued field " + f.name + " is not the last attribute of its type", fmt.Sprintf("got %q, sequence has %q in this order", g, want)
			}
			continue
		}
		if g := *f.mv(n); !strEq(g, want) {
			return "field " + f.name + " is not the ordered list of the sequence's values", fmt.Sprintf("got %q, sequence has %q in this order", g, want)
		}
	}
	if !strEq(n.CommonNames, by[oidCN]) {
		return "field CommonNames is not the ordered list of the sequence's values", fmt.Sprintf("got %q, sequence has %q", n.CommonNames, by[oidCN])
	}
	if !strEq(n.SerialNumbers, by[oidSerial]) {
		return "field SerialNumbers is not the ordered list of the sequence's values", fmt.Sprintf("got %q, sequence has %q", n.SerialNumbers, by[oidSerial])
	}
	return "", ""
}

// utf16BE / ucs4BE: the harness' own decoders for BMPString (X.680: UCS-2,
// 2 octets per character, big endian) and UniversalString (UCS-4, 4 octets).
// ok=false: not a well-formed string of that type (odd length, surrogate code
// unit in UCS-2, code point beyond U+10FFFF) — then nothing is demanded.
func utf16BE(b []byte) (string, bool) {
	if len(b)%2 != 0 {
		return "", false
	}
	var rs []rune
	for i := 0; i < len(b); i += 2 {
		u := rune(b[i])<<8 | rune(b[i+1])
		if u >= 0xd800 && u <= 0xdfff {
			return "", false
		}
		rs = append(rs, u)
	}
	return string(rs), true
}

func ucs4BE(b []byte) (string, bool) {
	if len(b)%4 != 0 {
		return "", false
	}
	var rs []rune
	for i := 0; i < len(b); i += 4 {
		u := uint32(b[i])<<24 | uint32(b[i+1])<<16 | uint32(b[i+2])<<8 | uint32(b[i+3])
		if u > 0x10ffff || (u >= 0xd800 && u <= 0xdfff) {
			return "", false
		}
		rs = append(rs, rune(u))
	}
	return string(rs), true
}

func latin1(b []byte) string {
	rs := make([]rune, len(b))
	for i, c := range b {
		rs[i] = rune(c)
	}
	return string(rs)
}

// acceptedStrings: which Go strings a parser may produce for an attribute value
// of a string type (judged=false: no independent expectation).
//   - Printable/UTF8/IA5/Numeric: the content octets (X.690 §8.23).
//   - BMPString: UTF-16BE decoding of the content; zcrypto documents "Strip
//     terminator if present" (a trailing 0000), so both readings are accepted
//     when the content ends in 0000.
//   - UniversalString: UCS-4BE decoding (today zcrypto produces no string at all).
//   - T61String / GeneralString: the statement is silent on the character set;
//     the octets as they are (zcrypto: "8-bit clean string") and ISO 8859-1
//     (Go's standard library) are both accepted.
func acceptedStrings(tag byte, content []byte) (acc []string, judged bool) {
	switch {
	case plainStringTag(tag):
		return []string{string(content)}, true
	case tag == 0x1e:
		s, ok := utf16BE(content)
		if !ok {
			return nil, false
		}
		acc = []string{s}
		if l := len(content); l >= 2 && content[l-1] == 0 && content[l-2] == 0 {
			t, _ := utf16BE(content[:l-2])
			acc = append(acc, t)
		}
		return acc, true
	case tag == 0x1c:
		s, ok := ucs4BE(content)
		if !ok {
			return nil, false
		}
		return []string{s}, true
	case tag == 0x14 || tag == 0x1b:
		return []string{string(content), latin1(content)}, true
	}
	return nil, false
}

// parsedVsDER compares a parsed sequence with the harness' own structural
// reading of the DER (atoms): same grouping, same OIDs, and every value that
// the parser turned into a Go string is one of acceptedStrings.
func parsedVsDER(seq zpkix.RDNSequence, atoms [][]atom, h ev.Hist) string {
	if len(atoms) != len(seq) {
		return "number of RDNs"
	}
	for i := range atoms {
		if len(atoms[i]) != len(seq[i]) {
			return "RDN size"
		}
		for j, a := range atoms[i] {
			if oidStr(seq[i][j].Type) != a.oid {
				return "attribute type"
			}
			s, isStr := seq[i][j].Value.(string)
			acc, judged := acceptedStrings(a.tag, a.content)
			if plainStringTag(a.tag) && !isStr {
				return "value of a Printable/UTF8/IA5/NumericString"
			}
			if !isStr {
				continue
			}
			if !judged {
				if h != nil {
					h[fmt.Sprintf("D2 string produced for tag 0x%02x without independent expectation (not judged)", a.tag)]++
				}
				continue
			}
			if !contains(acc, s) {
				switch {
				case plainStringTag(a.tag):
					return "value of a Printable/UTF8/IA5/NumericString"
				case a.tag == 0x1e:
					return "value of a BMPString is not its UTF-16BE decoding"
				case a.tag == 0x1c:
					return "value of a UniversalString is not its UCS-4BE decoding"
				}
				return "value of a T61String/GeneralString is neither its octets nor their ISO 8859-1 reading"
			}
			if h != nil && !plainStringTag(a.tag) {
				k := "octets"
				if s != string(a.content) {
					k = "decoded"
				}
				h[fmt.Sprintf("D2 tag 0x%02x value judged against the harness' own decoding (%s)", a.tag, k)]++
			}
		}
	}
	return ""
}

// ------------------------------------------------------------------ witnesses

type witness struct {
	Dir     string         `json:"dir"` // "D1" or "D2"
	Choices []choice       `json:"choices,omitempty"`
	Name    map[string]any `json:"name,omitempty"`
	DER     string         `json:"der"`
	Detail  string         `json:"detail"`
}

type reporter func(sig string, w witness)

// ------------------------------------------------------------------ direction 1

type d1 struct {
	ef []enumField

	mu sync.Mutex
	ff map[string]*fieldFailure // kind|field -> first witness
	fo []string
}

type fieldFailure struct {
	kind, field string
	w           witness
	n           int64
}

// diffKind classifies how a field differs from what the Name held.
func diffKind(got, want []string) string {
	sub := func(a, b []string) bool { // multiset a ⊆ b
		m := map[string]int{}
		for _, x := range b {
			m[x]++
		}
		for _, x := range a {
			if m[x]--; m[x] < 0 {
				return false
			}
		}
		return true
	}
	switch {
	case sub(got, want):
		return "values lost"
	case sub(want, got):
		return "values gained"
	}
	return "other values"
}

func (d *d1) fieldFail(kind, field string, w witness) {
	d.mu.Lock()
	defer d.mu.Unlock()
	if d.ff == nil {
		d.ff = map[string]*fieldFailure{}
	}
	k := kind + "|" + field
	if e, ok := d.ff[k]; ok {
		e.n++
		return
	}
	d.ff[k] = &fieldFailure{kind, field, w, 1}
	d.fo = append(d.fo, k)
}

// flush turns the recorded field differences into violations: one signature
// per (field, kind); a kind that hits five or more fields is one defect of the
// common path and gets one signature.
func (d *d1) flush(c *ev.Ctx) {
	d.mu.Lock()
	defer d.mu.Unlock()
	sort.Strings(d.fo)
	byKind := map[string][]*fieldFailure{}
	var kinds []string
	for _, k := range d.fo {
		e := d.ff[k]
		if len(byKind[e.kind]) == 0 {
			kinds = append(kinds, e.kind)
		}
		byKind[e.kind] = append(byKind[e.kind], e)
	}
	for _, kind := range kinds {
		l := byKind[kind]
		if len(l) >= 5 {
			var names []string
			var n int64
			for _, e := range l {
				names = append(names, e.field)
				n += e.n
			}
			w := l[0].w
			w.Detail = fmt.Sprintf("%d names, fields %v; first: %s", n, names, w.Detail)
			c.Violation("D1 five or more fields differ after Name→RDNSequence→DER→RDNSequence→Name: "+kind, w)
			continue
		}
		for _, e := range l {
			e.w.Detail = fmt.Sprintf("%d names; first: %s", e.n, e.w.Detail)
			c.Violation("D1 field "+e.field+" differs after Name→RDNSequence→DER→RDNSequence→Name: "+kind, e.w)
		}
	}
	d.ff, d.fo = nil, nil
}

func (d *d1) build(ch []choice) (n zpkix.Name, own, ext map[string][]string, extN map[string][]string, desc map[string]any, extras []xatv, bad bool) {
	own = map[string][]string{}  // oid -> string values of the Name's own field
	ext = map[string][]string{}  // oid -> string values of ExtraNames entries
	extN = map[string][]string{} // oid -> all ExtraNames values, normalised (incl. non-strings)
	desc = map[string]any{}
	for _, c := range ch {
		e := d.ef[c.F]
		a := e.alts[c.A]
		if c.Len != nil {
			a = alt{Vals: lenVals(c.Len)}
		}
		bad = bad || a.Bad
		if e.idx == extraField {
			var l []string
			for _, x := range a.Extra {
				n.ExtraNames = append(n.ExtraNames, zpkix.AttributeTypeAndValue{Type: parseOID(x.OID), Value: x.Val})
				if s, ok := x.Val.(string); ok {
					ext[x.OID] = append(ext[x.OID], s)
				}
				extN[x.OID] = append(extN[x.OID], normVal(x.Val))
				l = append(l, x.OID+"="+normVal(x.Val))
			}
			extras = a.Extra
			desc["ExtraNames"] = l
			continue
		}
		f := fields[e.idx]
		if f.single {
			*f.sv(&n) = a.Vals[0]
			desc[f.name] = a.Vals[0]
		} else {
			*f.mv(&n) = append([]string(nil), a.Vals...)
			desc[f.name] = a.Vals
		}
		if c.Len != nil {
			desc[f.name] = fmt.Sprintf("{count, length} of values made of 'x': %v", c.Len)
		}
		own[f.oid] = append([]string(nil), a.Vals...)
	}
	return
}

func fieldOfOID(oid string) string {
	for _, f := range fields {
		if f.oid == oid {
			return f.name
		}
	}
	return "(no field)"
}

func (d *d1) run(ch []choice, h ev.Hist, c *ev.Ctx, rep reporter) {
	n, own, ext, extN, desc, extras, bad := d.build(ch)
	w := witness{Dir: "D1", Choices: ch, Name: desc}
	fail := func(sig, detail string) {
		w.Detail = detail
		rep(sig, w)
		h["D1 VIOLATION"]++
	}
	c.States.Add(1)

	var seq zpkix.RDNSequence
	var der []byte
	var back, backSnap zpkix.RDNSequence
	var got zpkix.Name
	var merr, uerr error
	var rest []byte
	if p, msg, site := ev.Try(func() {
		seq = n.ToRDNSequence()
		der, merr = zasn1.Marshal(seq)
		if merr != nil {
			return
		}
		rest, uerr = zasn1.Unmarshal(der, &back)
		if uerr != nil {
			return
		}
		backSnap = copySeq(back) // FillFromRDNSequence keeps an alias of back (OriginalRDNS): compare with a deep copy taken before
		got.FillFromRDNSequence(&back)
	}); p {
		fail("D1 panic@"+site+": "+ev.MsgClass(msg), msg)
		return
	}
	c.Transitions.Add(4)
	if merr != nil {
		if bad {
			// outside the domain: the documented refusal
			h["D1 value that is not valid UTF-8: Marshal refuses ("+ev.MsgClass(merr.Error())+")"]++
			return
		}
		fail("D1 asn1.Marshal(ToRDNSequence()) fails: "+ev.MsgClass(merr.Error()), merr.Error())
		return
	}
	if bad {
		h["D1 value that is not valid UTF-8: Marshal encodes it (round trip then demanded)"]++
	}
	w.DER = hex.EncodeToString(der)
	if uerr != nil || len(rest) != 0 {
		fail("D1 asn1.Unmarshal rejects zcrypto's own encoding of the name", fmt.Sprintf("err=%v rest=%x", uerr, rest))
		return
	}
	nseq, nback := normZ(seq), normZ(back)
	same, permuted := samePairsPerRDN(nseq, nback)
	if !same {
		fail("D1 RDN sequence changed by Marshal/Unmarshal beyond the order inside one RDN", "emitted "+showSeq(nseq)+" decoded "+showSeq(nback))
		return
	}

	// --- the property: every field holds the same attribute values
	for _, f := range fields {
		if f.single {
			if g := *f.sv(&got); !acceptSingle(g, own[f.oid], ext[f.oid]) {
				w.Detail = fmt.Sprintf("got %q, Name had %q (ExtraNames of that type: %q)", g, own[f.oid], ext[f.oid])
				var gl []string
				if g != "" {
					gl = []string{g}
				}
				d.fieldFail(diffKind(gl, append(append([]string(nil), own[f.oid]...), ext[f.oid]...)), f.name, w)
				h["D1 VIOLATION"]++
				return
			}
			continue
		}
		if g := *f.mv(&got); !acceptMulti(g, own[f.oid], ext[f.oid]) {
			w.Detail = fmt.Sprintf("got %q, Name had %q (ExtraNames of that type: %q)", g, own[f.oid], ext[f.oid])
			d.fieldFail(diffKind(g, append(append([]string(nil), own[f.oid]...), ext[f.oid]...)), f.name, w)
			h["D1 VIOLATION"]++
			return
		}
	}
	// ExtraNames come back in Names ("The ExtraNames field is not populated when parsing, see Names").
	{
		var names []string
		for _, a := range got.Names {
			names = append(names, oidStr(a.Type)+"="+normVal(a.Value))
		}
		for _, x := range extras {
			if !contains(names, x.OID+"="+normVal(x.Val)) {
				fail("D1 an ExtraNames attribute is not in Names after the round trip", fmt.Sprintf("%s=%s missing from %q", x.OID, normVal(x.Val), names))
				return
			}
		}
	}
	// the filled Name against the parsed sequence, in order (Names, CommonNames, SerialNumbers, every field)
	if ok, why := sameSeq(back, backSnap); !ok {
		fail("D1 FillFromRDNSequence modified the sequence it was given", why)
		return
	}
	if what, detail := checkFilled(&got, backSnap); what != "" {
		fail("D1 filled Name vs parsed sequence: "+what, detail)
		return
	}
	// sentence 2 on this parsed sequence (compared with the deep copy taken before the fill)
	c.Transitions.Add(1)
	if ok, why := sameSeq(got.ToRDNSequence(), backSnap); !ok {
		fail("D1 ToRDNSequence of the filled Name is not the parsed sequence", why)
		return
	}
	c.Traces.Add(1)

	// --- independent decoding of the same DER with the standard library
	var sseq stdpkix.RDNSequence
	srest, serr := stdasn1.Unmarshal(der, &sseq)
	c.Evaluations.Add(1)
	if serr != nil || len(srest) != 0 {
		fail("D1 the standard library cannot decode zcrypto's encoding of the name", fmt.Sprintf("err=%v rest=%x", serr, srest))
		return
	}
	nstd := normS(sseq)
	if !samePairsExact(nstd, nback) {
		fail("D1 the standard library decodes the DER to other attributes than zcrypto", "std "+showSeq(nstd)+" zcrypto "+showSeq(nback))
		return
	}
	byOID := map[string][]string{}
	for _, r := range nstd {
		for _, p := range r {
			byOID[p.oid] = append(byOID[p.oid], p.val)
		}
	}
	oids := map[string]bool{}
	for o := range byOID {
		oids[o] = true
	}
	for o := range own {
		oids[o] = true
	}
	for o := range extN {
		oids[o] = true
	}
	var ol []string
	for o := range oids {
		ol = append(ol, o)
	}
	sort.Strings(ol)
	for _, o := range ol {
		var ownN []string
		for _, s := range own[o] {
			ownN = append(ownN, "s:"+s)
		}
		if !acceptMulti(byOID[o], ownN, extN[o]) {
			fail("D1 DER (decoded by the standard library) carries other values under the OID of "+fieldOfOID(o)+" than the Name", fmt.Sprintf("oid %s: DER has %q, Name field %q, ExtraNames %q", o, byOID[o], ownN, extN[o]))
			return
		}
	}
	var sname stdpkix.Name
	sname.FillFromRDNSequence(&sseq)
	for _, f := range fields {
		switch {
		case f.stdsv != nil:
			if g := f.stdsv(&sname); !acceptSingle(g, own[f.oid], ext[f.oid]) {
				fail("D1 standard-library Name filled from the DER: field "+f.name+" differs", fmt.Sprintf("got %q want %q/%q", g, own[f.oid], ext[f.oid]))
				return
			}
		case f.stdmv != nil:
			if g := f.stdmv(&sname); !acceptMulti(g, own[f.oid], ext[f.oid]) {
				fail("D1 standard-library Name filled from the DER: field "+f.name+" differs", fmt.Sprintf("got %q want %q/%q", g, own[f.oid], ext[f.oid]))
				return
			}
		}
	}
	// string type chosen by the encoder: PrintableString iff every octet is in the
	// X.680 PrintableString alphabet, else UTF8String; SET OF elements in DER order.
	if atoms, err := walkName(der); err == nil {
		nStr := 0
		for _, r := range atoms {
			for k, a := range r {
				if k > 0 && !bytesLessOrEqualDER(r[k-1].der(), a.der()) {
					fail("D1 the elements of an RDN (SET OF) are not in DER order (X.690 §11.6)", fmt.Sprintf("%x before %x", r[k-1].der(), a.der()))
					return
				}
				switch a.tag {
				case 0x13:
					nStr++
					if !printableX680(a.content) {
						fail("D1 string type: a value with a character outside the X.680 PrintableString alphabet is encoded as PrintableString", fmt.Sprintf("%q", a.content))
						return
					}
					h["D1 value encoded as PrintableString"]++
				case 0x0c:
					nStr++
					if printableX680(a.content) {
						fail("D1 string type: a value of PrintableString characters only is encoded as UTF8String", fmt.Sprintf("%q", a.content))
						return
					}
					h["D1 value encoded as UTF8String"]++
				default:
					h[fmt.Sprintf("D1 value encoded with tag 0x%02x", a.tag)]++
				}
			}
		}
		want := 0
		for _, l := range own {
			want += len(l)
		}
		for _, l := range ext {
			want += len(l)
		}
		if nStr != want {
			fail("D1 string type: a string value is encoded as neither PrintableString nor UTF8String", fmt.Sprintf("%d of %d string values carry tag 0x13/0x0c", nStr, want))
			return
		}
	} else {
		fail("D1 zcrypto's encoding is not SEQUENCE OF SET OF SEQUENCE{OID, value}", err.Error())
		return
	}

	// --- the cryptobyte parser on the same DER
	var pseq *zpkix.RDNSequence
	var perr error
	if p, msg, site := ev.Try(func() { pseq, perr = zx509.VerifC22ParseName(der) }); p {
		fail("D1 panic@"+site+": "+ev.MsgClass(msg), msg)
		return
	}
	c.Transitions.Add(1)
	if perr != nil {
		h["D1 parseName rejects (non-string value): "+ev.MsgClass(perr.Error())]++
	} else {
		h["D1 parseName accepts"]++
		if np := normZ(*pseq); !samePairsExact(np, nback) {
			fail("D1 x509.parseName and asn1.Unmarshal decode the same DER differently", "parseName "+showSeq(np)+" asn1 "+showSeq(nback))
			return
		}
	}

	switch {
	case len(ch) == 0:
		h["D1 empty name round-trips"]++
	case permuted:
		h["D1 round-trips, DER SET sort permuted values inside an RDN"]++
	default:
		h["D1 round-trips, order preserved"]++
	}
	for o := range extN {
		if _, dup := own[o]; dup {
			h["D1 ExtraNames duplicates a set field: values appended"]++
		}
	}
	if len(ch) > 0 {
		c.Distinct.Add(1)
	}
	if len(ch) == 3 && c.WantSample() {
		c.Sample(map[string]any{"dir": "D1", "name": desc, "der": w.DER, "filled": showSeq(nback)})
	}
}

// ------------------------------------------------------------------ direction 2

// convertBack: fill a fresh Name from seq and convert back (sentence 2), and
// compare every field of the filled Name, in order, with the sequence.
func convertBack(label string, seq zpkix.RDNSequence, fail func(sig, detail string), c *ev.Ctx) bool {
	snap := copySeq(seq)
	var n zpkix.Name
	var out zpkix.RDNSequence
	if p, msg, site := ev.Try(func() {
		n.FillFromRDNSequence(&seq)
		out = n.ToRDNSequence()
	}); p {
		fail("D2 panic@"+site+": "+ev.MsgClass(msg), msg)
		return false
	}
	c.Transitions.Add(2)
	if ok, why := sameSeq(out, snap); !ok {
		fail("D2 ("+label+") Name filled from a parsed sequence does not convert back to that sequence", why+": parsed "+showSeq(normZ(snap))+" converted back "+showSeq(normZ(out)))
		return false
	}
	if what, detail := checkFilled(&n, snap); what != "" {
		fail("D2 ("+label+") filled Name vs parsed sequence: "+what, detail)
		return false
	}
	return true
}

func runD2(der []byte, h ev.Hist, c *ev.Ctx, rep reporter) {
	w := witness{Dir: "D2", DER: hex.EncodeToString(der)}
	fail := func(sig, detail string) {
		w.Detail = detail
		rep(sig, w)
		h["D2 VIOLATION"]++
	}
	c.States.Add(1)
	atoms, werr := walkName(der)
	if werr != nil {
		atoms = nil
	}

	var zseq zpkix.RDNSequence
	var zerr error
	var zrest []byte
	if p, msg, site := ev.Try(func() { zrest, zerr = zasn1.Unmarshal(der, &zseq) }); p {
		fail("D2 panic@"+site+": "+ev.MsgClass(msg), msg)
		return
	}
	c.Transitions.Add(1)
	zok := zerr == nil && len(zrest) == 0
	var nz [][]pair
	if zok {
		nz = normZ(zseq)
		// the parsed sequence has the structure and OIDs of the DER; string types hold what the harness' own decoding says
		if atoms != nil {
			if bad := parsedVsDER(zseq, atoms, h); bad != "" {
				fail("D2 asn1.Unmarshal: parsed sequence differs from the DER structure: "+bad, showSeq(nz))
				return
			}
		}
		if !convertBack("asn1.Unmarshal", zseq, fail, c) {
			return
		}
		c.Traces.Add(1)
		h["D2 asn1.Unmarshal accepts, converts back"]++
	} else {
		msg := "trailing data"
		if zerr != nil {
			msg = zerr.Error()
		}
		h["D2 asn1.Unmarshal rejects: "+ev.MsgClass(msg)]++
	}

	// standard library on the same DER: outcome classes only (the statement does not
	// bind zcrypto's parser to the standard library's on arbitrary input)
	var sseq stdpkix.RDNSequence
	srest, serr := stdasn1.Unmarshal(der, &sseq)
	c.Evaluations.Add(1)
	sok := serr == nil && len(srest) == 0
	switch {
	case zok && sok:
		if samePairsExact(normS(sseq), nz) {
			h["D2 standard library parses the same values"]++
		} else {
			h["D2 standard library parses other values (not judged)"]++
			c.Set("d2_std_differs_example", map[string]string{"der": w.DER, "std": showSeq(normS(sseq)), "zcrypto": showSeq(nz)})
		}
	case zok && !sok:
		h["D2 standard library rejects what zcrypto accepts (not judged)"]++
	case !zok && sok:
		h["D2 standard library accepts what zcrypto rejects (not judged)"]++
	}

	// cryptobyte parser
	var pseq *zpkix.RDNSequence
	var perr error
	if p, msg, site := ev.Try(func() { pseq, perr = zx509.VerifC22ParseName(der) }); p {
		fail("D2 panic@"+site+": "+ev.MsgClass(msg), msg)
		return
	}
	c.Transitions.Add(1)
	if perr != nil {
		h["D2 parseName rejects: "+ev.MsgClass(perr.Error())]++
	} else {
		np := normZ(*pseq)
		if zok {
			if !samePairsExact(np, nz) {
				fail("D2 x509.parseName and asn1.Unmarshal decode the same DER to different values", "parseName "+showSeq(np)+" asn1 "+showSeq(nz))
				return
			}
			h["D2 parseName accepts, same values as asn1.Unmarshal"]++
		} else {
			h["D2 parseName accepts what asn1.Unmarshal rejects (not judged)"]++
		}
		if atoms != nil {
			if bad := parsedVsDER(*pseq, atoms, nil); bad != "" {
				fail("D2 x509.parseName: parsed sequence differs from the DER structure: "+bad, showSeq(np))
				return
			}
		}
		if !convertBack("x509.parseName", *pseq, fail, c) {
			return
		}
		c.Traces.Add(1)
	}
	if zok || perr == nil {
		c.Distinct.Add(1)
	}
	if c.WantSample() && zok && len(zseq) == 2 && len(zseq[0]) == 2 && len(zseq[1]) >= 1 {
		c.Sample(map[string]any{"dir": "D2", "der": w.DER, "parsed": showSeq(nz)})
	}
}

// direction-2 alphabets
var d2OIDs = []string{oidCN, oidSurname, oidSerial, oidC, oidL, oidST, oidStreet, oidO, oidOU, oidPostal, oidGiven, oidOrgID,
	oidDC, oidEmail, oidJurL, oidJurST, oidJurC, oidUnknown, "2.5.4.99", "2.5.4.3.1", "2.5.4", "2.5.5.3"}

type d2val struct {
	tag     byte
	content []byte
}

var d2Vals = []d2val{
	{0x13, []byte("A")},                      // PrintableString
	{0x13, nil},                              // empty PrintableString
	{0x13, []byte("a*b&")},                   // tolerated non-printable characters
	{0x13, []byte("a@b")},                    // invalid PrintableString
	{0x0c, []byte("é")},                      // UTF8String
	{0x0c, []byte{0xff}},                     // invalid UTF-8
	{0x16, []byte("a@b.c")},                  // IA5String
	{0x16, []byte{0x80}},                     // invalid IA5String
	{0x14, []byte{0xe9, 't'}},                // T61String
	{0x1e, []byte{0, 'h', 0, 'i'}},           // BMPString
	{0x1e, []byte{0, 'h', 0}},                // odd BMPString
	{0x12, []byte("12 3")},                   // NumericString
	{0x12, []byte("1a")},                     // invalid NumericString
	{0x02, []byte{5}},                        // INTEGER
	{0x02, []byte{0, 5}},                     // non-minimal INTEGER
	{0x04, []byte{1, 2}},                     // OCTET STRING
	{0x03, []byte{0, 0xff}},                  // BIT STRING
	{0x06, []byte{0x2a, 3}},                  // OBJECT IDENTIFIER 1.2.3
	{0x17, []byte("250101000000Z")},          // UTCTime
	{0x01, []byte{0xff}},                     // BOOLEAN
	{0x05, nil},                              // NULL
	{0x30, nil},                              // SEQUENCE {}
	{0x1b, []byte("g")},                      // GeneralString
	{0x1c, []byte{0, 0, 0, 'u'}},             // UniversalString
	{0x80, []byte("c")},                      // [0] primitive
	{0x0c, []byte(strings.Repeat("x", 200))}, // long-form length
	// strengthening: values with an independent expectation (harness UTF-16BE / UCS-4BE decoders)
	{0x1e, []byte{0x65, 0xe5, 0x67, 0x2c}},             // BMPString "日本"
	{0x1e, []byte{0, 'h', 0, 0}},                       // BMPString with a 0000 terminator (zcrypto strips it; both accepted)
	{0x1e, []byte{0xd8, 0x3d, 0xde, 0x00}},             // surrogate pair: not UCS-2 (not judged)
	{0x1e, nil},                                        // empty BMPString
	{0x1c, []byte{0, 0, 0x65, 0xe5, 0, 1, 0xf6, 0x00}}, // UniversalString "日😀"
	{0x14, []byte("plain")},                            // T61String, ASCII only
	{0x0c, []byte("日本😀")},                              // UTF8String, 3- and 4-byte sequences
	{0x13, []byte("'()+,-./:=?")},                      // all PrintableString punctuation
	{0x13, []byte("a_b")},                              // '_' is not a PrintableString character
}

func at(oid string, tag byte, s string) atom { return atom{oid, tag, []byte(s)} }

// structure alphabet B (12 atoms) and its reduced forms
var d2B = []atom{
	at(oidCN, 0x13, "A"), at(oidCN, 0x0c, "é"), at(oidO, 0x13, "A"), at(oidO, 0x13, "B"),
	at(oidL, 0x16, "a@b.c"), at(oidUnknown, 0x13, "A"), {oidUnknown, 0x02, []byte{5}}, {oidC, 0x05, nil},
	at(oidOrgID, 0x13, "x"), at(oidEmail, 0x16, "a@b.c"), at(oidGiven, 0x0c, "é"), {oidSerial, 0x14, []byte{0xe9}},
	{oidCN, 0x1e, []byte{0x65, 0xe5, 0x67, 0x2c}}, // strengthening: BMPString CommonName "日本" (several CNs of different string types: last wins)
}

// rdnForms: all ordered RDNs with at most maxLen atoms over the alphabet.
func rdnForms(alpha []atom, maxLen int) [][]atom {
	forms := [][]atom{{}}
	level := [][]atom{{}}
	for l := 1; l <= maxLen; l++ {
		var next [][]atom
		for _, p := range level {
			for _, a := range alpha {
				f := append(append([]atom{}, p...), a)
				next = append(next, f)
			}
		}
		forms = append(forms, next...)
		level = next
	}
	return forms
}

// ------------------------------------------------------------------ main

func main() {
	if nohb.IsWorker() {
		nohb.WorkerMain(reentrantOps(), reentrantRepoDir())
		return
	}
	ev.Main("C22", "model_checking", func(c *ev.Ctx) {
		d := &d1{ef: enumFields()}
		rep := func(sig string, w witness) { c.Violation(sig, w) }

		if c.Replay != nil {
			var w witness
			if err := json.Unmarshal(c.Replay, &w); err != nil {
				c.Broken("bad witness: %v", err)
			}
			h := ev.Hist{}
			if w.Dir == "D1" {
				d.run(w.Choices, h, c, rep)
				d.flush(c)
			} else {
				der, err := hex.DecodeString(w.DER)
				if err != nil {
					c.Broken("bad witness der: %v", err)
				}
				runD2(der, h, c, rep)
			}
			c.Merge(h)
			return
		}

		c.Rule("D1: every pkix.Name with at most d non-default fields among the 15 attribute fields ToRDNSequence emits + ExtraNames (alternatives per field listed in coverage.d1_alternatives: one, two, two equal and three values incl. the prefix-related a/ab/b, empty slice, empty string, 128-byte, 3- and 4-byte UTF-8 values, every PrintableString punctuation character, '*' '&' '@' '_'), plus all 16 fields non-default at once; full round trip through zcrypto's DER codec; fields compared as multisets with the Name and IN ORDER (Names, CommonNames, SerialNumbers, every list; single-valued = last) with a deep copy of the parsed sequence taken before the fill; DER cross-decoded by the standard library; string type of every value = PrintableString iff all octets are in the X.680 PrintableString alphabet else UTF8String; SET OF elements in X.690 order; a value that is not valid UTF-8 must be refused by Marshal or round-trip. D1 size pass (same oracle): names chosen by the SIZE of their encoding -- every change of shape of the DER length encoding (content length 127|128, 255|256, 65535|65536; thorough also 16777215|16777216) crossed at each of the four nesting levels (value, AttributeTypeAndValue, RDN, RDNSequence) by one value of k characters for every k in [L-27, L+1] in CommonName and in OrganizationalUnit, and 65535|65536 also reached by many ordinary values (a 327-valued RDN and a 328-attribute name swept one byte at a time); coverage.d1_size_pass lists the boundary lengths actually reached per level, a boundary not reached makes the run incomplete. D2: every DER name of the listed shapes built by the harness' own DER writer, parsed by asn1.Unmarshal and x509.parseName, each parse compared with the harness' own reading of the DER (BMPString by UTF-16BE, UniversalString by UCS-4BE, T61/GeneralString octets or ISO 8859-1), filled (same in-order comparison) and converted back; a case is non-trivial when at least one attribute is present / a parser accepts it")
		c.Assume("attribute OIDs are the ones typed into this check from X.520, RFC 4519, PKCS#9, the EV guidelines and ETSI EN 319 412-1",
			"Go's standard encoding/asn1 and crypto/x509/pkix decode PrintableString/UTF8String/INTEGER/OCTET STRING attribute values correctly",
			"ExtraNames whose OID duplicates a set field: appended values and overriding values are both accepted (statement silent)",
			"a single-valued field (CommonName, SerialNumber) filled from a sequence with several attributes of its type holds the LAST one, as Go's crypto/x509/pkix.Name.FillFromRDNSequence does; CommonNames/SerialNumbers hold all of them in order",
			"strings that are not valid UTF-8 are outside the domain: Marshal refusing them (documented: 'asn1: string not valid UTF-8') is accepted, so is a faithful round trip",
			"T61String/GeneralString: octets as they are or ISO 8859-1 are both accepted (statement silent); BMPString ending in 0000: with or without that terminator (zcrypto documents stripping it); BMPString with surrogate code units and ill-formed Universal strings are not judged")

		// ---------------- direction 2 (first: it is the smaller part, so a budget hit on a loaded machine cuts D1, never all of D2)
		type job func(emit func([]byte))
		var jobs []job
		var planned int64
		// (a) every OID x every value type as a one-attribute name
		for _, o := range d2OIDs {
			o := o
			jobs = append(jobs, func(emit func([]byte)) {
				for _, v := range d2Vals {
					emit(nameDER([][]atom{{{o, v.tag, v.content}}}))
				}
			})
			planned += int64(len(d2Vals))
		}
		nSingles := planned
		// (b) sequences of RDN forms
		f2 := rdnForms(d2B, 2)                     // 1+12+144 = 157 forms: RDNs of <= 2 attributes, both orders
		f1 := rdnForms(d2B, 1)                     // 13 forms
		f3 := rdnForms(d2B[:ev.Pick(c, 5, 12)], 3) // RDNs with up to 3 attributes
		fs := rdnForms(d2B[:ev.Pick(c, 4, 8)], 2)  // for 3-RDN sequences: 21 / 73 forms
		jobs = append(jobs, func(emit func([]byte)) { emit(nameDER(nil)) })
		planned++
		for _, a := range f3 {
			if len(a) == 3 {
				a := a
				jobs = append(jobs, func(emit func([]byte)) {
					emit(nameDER([][]atom{a}))
					emit(nameDER([][]atom{a, {d2B[2]}}))
				})
				planned += 2
			}
		}
		for _, a := range f2 {
			a := a
			jobs = append(jobs, func(emit func([]byte)) {
				emit(nameDER([][]atom{a}))
				for _, b := range f2 {
					emit(nameDER([][]atom{a, b}))
				}
			})
			planned += 1 + int64(len(f2))
		}
		for _, a := range f1 {
			a := a
			jobs = append(jobs, func(emit func([]byte)) {
				for _, b := range f1 {
					for _, e := range f1 {
						emit(nameDER([][]atom{a, b, e}))
					}
				}
			})
			planned += int64(len(f1) * len(f1))
		}
		for _, a := range fs {
			for _, b := range fs {
				a, b := a, b
				jobs = append(jobs, func(emit func([]byte)) {
					for _, e := range fs {
						emit(nameDER([][]atom{a, b, e}))
					}
				})
				planned += int64(len(fs))
			}
		}
		c.Set("d2_names_planned", map[string]any{"total": planned, "one_attribute_oid_x_value_type": nSingles,
			"oids": len(d2OIDs), "value_types": len(d2Vals), "rdn_forms_le2_attrs": len(f2), "rdn_forms_in_3rdn_sequences": len(fs), "rdn_forms_le3_attrs": len(f3)})
		done := c.Parallel(len(jobs), func(wk, i int) {
			h := ev.Hist{}
			stop := false
			jobs[i](func(der []byte) {
				if stop {
					return
				}
				if c.TimeUp() {
					stop = true
					c.Incomplete("D2: budget hit inside a job")
					return
				}
				runD2(der, h, c, rep)
			})
			c.Merge(h)
		})
		if !done {
			c.Incomplete("D2: budget hit before all harness-built names were evaluated")
		}

		// ---------------- direction 1, size pass (before the field products, so that a budget stop never cuts it): the names are chosen by the SIZE of their encoding, not by content.
		// Every place where the DER length encoding changes shape (content length 127|128, 255|256, 65535|65536;
		// thorough: 16777215|16777216) is crossed at every nesting level of a name: (a) one value of k characters in
		// CommonName resp. OrganizationalUnit for every k in [L-27, L+1] (value, AttributeTypeAndValue, RDN and
		// RDNSequence bodies are k, k+c1, k+c2, k+c3 with small constants, so each body takes both L-1 and L);
		// (b) the same sizes reached by MANY ordinary values (<= 190 bytes each): a multi-valued RDN whose body,
		// and a name whose body, sweeps across 65535|65536 one byte at a time.
		fidx := map[string]int{}
		for i, e := range d.ef {
			if e.idx != extraField {
				fidx[fields[e.idx].name] = i
			}
		}
		var sizeJobs [][]choice
		bounds := []int{128, 256, 65536}
		if !c.Quick() {
			bounds = append(bounds, 16777216)
		}
		for _, L := range bounds {
			for k := L - 27; k <= L+1; k++ {
				sizeJobs = append(sizeJobs, []choice{{F: fidx["CommonName"], Len: [][2]int{{1, k}}}})
				sizeJobs = append(sizeJobs, []choice{{F: fidx["OrganizationalUnit"], Len: [][2]int{{1, k}}}})
			}
		}
		for m := 1; m <= 118; m++ {
			// one RDN of 325 values of 190 bytes, one of 150 and one of m: the SET body sweeps 65495+m .. (crosses 65535|65536)
			sizeJobs = append(sizeJobs, []choice{{F: fidx["OrganizationalUnit"], Len: [][2]int{{325, 190}, {1, 150}, {1, m}}}})
			// 325 values of 190 bytes, plus Province of 100 and Locality of m bytes: the RDNSequence body sweeps across 65535|65536
			sizeJobs = append(sizeJobs, []choice{{F: fidx["OrganizationalUnit"], Len: [][2]int{{325, 190}}},
				{F: fidx["Province"], Len: [][2]int{{1, 100}}}, {F: fidx["Locality"], Len: [][2]int{{1, m}}}})
		}
		var smu sync.Mutex
		seenLen := map[int]map[int]bool{}
		done = c.Parallel(len(sizeJobs), func(wk, i int) {
			if c.TimeUp() {
				c.Incomplete("D1 size pass: budget hit")
				return
			}
			h := ev.Hist{}
			d.run(sizeJobs[i], h, c, rep)
			h["D1 size pass: names evaluated"]++
			c.Merge(h)
			n, _, _, _, _, _, _ := d.build(sizeJobs[i])
			if der, err := zasn1.Marshal(n.ToRDNSequence()); err == nil {
				mine := map[int]map[int]bool{}
				contentLengths(der, 0, mine)
				smu.Lock()
				for lv, m := range mine {
					if seenLen[lv] == nil {
						seenLen[lv] = map[int]bool{}
					}
					for l := range m {
						for _, L := range bounds {
							if l == L-1 || l == L {
								seenLen[lv][l] = true
							}
						}
					}
				}
				smu.Unlock()
			}
		})
		if !done {
			c.Incomplete("D1 size pass: budget hit before all names were evaluated")
		}
		hit := map[string][]int{}
		for lv, name := range []string{"RDNSequence body", "RDN (SET) body", "AttributeTypeAndValue body", "value"} {
			for _, L := range bounds {
				for _, l := range []int{L - 1, L} {
					if seenLen[lv][l] {
						hit[name] = append(hit[name], l)
					} else if done {
						c.Incomplete(fmt.Sprintf("D1 size pass: no name whose %s is %d bytes long", name, l))
					}
				}
			}
		}
		c.Set("d1_size_pass", map[string]any{"names": len(sizeJobs), "length_boundaries": bounds, "content_lengths_reached_per_level": hit})
		// ---------------- direction 1
		nf := len(d.ef)
		maxD := 3
		const (
			selAll  = 0
			selCore = 1
			selPair = 2 // all alternatives that are not Solo
			selFull = 3 // +0..3
		)
		type item struct {
			fs   []int
			core int // which alternatives: selAll, selCore, selFull
		}
		var items []item
		items = append(items, item{nil, selAll})
		for a := 0; a < nf; a++ {
			items = append(items, item{[]int{a}, selAll})
			for b := a + 1; b < nf; b++ {
				items = append(items, item{[]int{a, b}, ev.Pick(c, selPair, selAll)})
				for e := b + 1; e < nf; e++ {
					items = append(items, item{[]int{a, b, e}, ev.Pick(c, selCore, selAll)})
				}
			}
		}
		// ALL 16 enumerated fields non-default at once, two alternatives each (2^16 names);
		// split on the first two fields into 4 work items.
		for a0 := 0; a0 < 4; a0++ {
			all := make([]int, nf)
			for i := range all {
				all[i] = i
			}
			items = append(items, item{all, selFull + a0})
		}
		altIdx := func(f int, sel int) []int {
			var out []int
			for i, a := range d.ef[f].alts {
				switch {
				case sel == selAll, sel == selCore && a.Core, sel == selPair && !a.Solo, sel >= selFull && a.Full:
					out = append(out, i)
				}
			}
			if sel >= selFull {
				if len(out) != 2 {
					panic("field without exactly two Full alternatives")
				}
				if f < 2 { // the work item fixes the alternative of the first two fields
					out = out[((sel-selFull)>>f)&1:][:1]
				}
			}
			return out
		}
		var total int64
		perD := map[int]int64{}
		for _, it := range items {
			n := int64(1)
			for _, f := range it.fs {
				n *= int64(len(altIdx(f, it.core)))
			}
			total += n
			perD[len(it.fs)] += n
		}
		altDesc := map[string]any{}
		for f, e := range d.ef {
			name := "ExtraNames"
			if e.idx != extraField {
				name = fields[e.idx].name
			}
			altDesc[name] = map[string]int{"all": len(altIdx(f, selAll)), "in_2_field_products": len(altIdx(f, ev.Pick(c, selPair, selAll))), "core": len(altIdx(f, selCore)), "all_fields_item": 2}
		}
		c.Set("d1_alternatives", altDesc)
		c.Set("d1_value_alphabet", V)
		c.Set("d1_names_planned", map[string]any{"total": total, "by_non_default_fields": perD, "three_fields_use_core_alternatives_only": c.Quick(), "two_fields_leave_out_solo_alternatives": c.Quick()})
		c.Set("d1_max_non_default_fields", fmt.Sprintf("%d with every alternative (3: core alternatives in quick), plus all %d fields at once with two alternatives each", maxD, nf))

		done = c.Parallel(len(items), func(wk, i int) {
			it := items[i]
			h := ev.Hist{}
			idx := make([][]int, len(it.fs))
			for k, f := range it.fs {
				idx[k] = altIdx(f, it.core)
			}
			ch := make([]choice, len(it.fs))
			var rec func(k int) bool
			cnt := 0
			rec = func(k int) bool {
				if k == len(it.fs) {
					cnt++
					if cnt&1023 == 0 && c.TimeUp() {
						return false
					}
					d.run(append([]choice(nil), ch...), h, c, rep)
					return true
				}
				for _, a := range idx[k] {
					ch[k] = choice{F: it.fs[k], A: a}
					if !rec(k + 1) {
						return false
					}
				}
				return true
			}
			if !rec(0) {
				c.Incomplete("D1: budget hit inside a field combination")
			}
			c.Merge(h)
		})
		if !done {
			c.Incomplete("D1: budget hit before all field combinations were enumerated")
		}
		d.flush(c)
		reentrantPhase(c)

	})
}
