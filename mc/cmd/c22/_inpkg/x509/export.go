package x509

import (
	"github.com/zmap/zcrypto/cryptobyte"

	"github.com/zmap/zcrypto/x509/pkix"
)

// Thin accessor for check C22 (compiled into package x509 through -overlay;
// never part of /repo). No logic here.

// VerifC22ParseName calls the unexported cryptobyte-based name parser that
// ParseRevocationList uses for the issuer.
func VerifC22ParseName(der []byte) (*pkix.RDNSequence, error) {
	return parseName(cryptobyte.String(der))
}
