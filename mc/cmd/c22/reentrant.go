package main

// Re-entrancy pass (internal/nohb): names are converted in every certificate parse, every JSON export and every
// chain building step, on many goroutines; "Name -> RDNSequence -> DER -> RDNSequence -> Name gives back the
// fields" must not depend on another goroutine converting a name at the same time (a shared attribute list, a
// builder kept between calls or a lazily filled OID table would mix the two names). Every ordered pair of the menu
// below is run as "first call to completion, then the second on another goroutine" WITHOUT a happens-before edge in
// a -race build: ThreadSanitizer reports every location both calls touch unsynchronised, for all interleavings.
//
// Menu, direction 1: for every one of the 16 enumerated fields its first "core" alternative alone, and the two
// names with ALL fields non-default: the caller's own pkix.Name (d1.build) through ToRDNSequence, asn1.Marshal,
// asn1.Unmarshal, FillFromRDNSequence, String, ToRDNSequence again. Direction 2: harness-written DER names (one
// attribute of each string type incl. BMPString / UniversalString / T61String / IA5String / invalid UTF-8 / a
// non-string value, and two multi-RDN names over the structure alphabet) through asn1.Unmarshal and x509.parseName,
// each followed by FillFromRDNSequence, String, ToRDNSequence, asn1.Marshal; no object is shared between those
// calls. Shared object: ONE parsed pkix.Name (two shapes) read by both calls of a pair through its read-only
// accessors String, ToRDNSequence (+ asn1.Marshal), OriginalRDNS.String and the JSON view, in all ordered pairs.

import (
	"encoding/json"
	"fmt"
	"os"
	"time"

	zasn1 "github.com/zmap/zcrypto/encoding/asn1"
	zx509 "github.com/zmap/zcrypto/x509"
	zpkix "github.com/zmap/zcrypto/x509/pkix"
	"verifmc/internal/ev"
	"verifmc/internal/nohb"
)

func reentrantRepoDir() string {
	if v := os.Getenv("VERIF_REPO_DIR"); v != "" {
		return v
	}
	return "/repo"
}

func reFillAndBack(seq *zpkix.RDNSequence) {
	var n zpkix.Name
	n.FillFromRDNSequence(seq)
	_ = n.String()
	if der, err := zasn1.Marshal(n.ToRDNSequence()); err == nil {
		_ = der
	}
}

func reentrantOps() []nohb.Op {
	var ops []nohb.Op
	ef := enumFields()
	d1op := func(label string, ch []choice) {
		ops = append(ops, nohb.Op{Name: "D1 " + label + ": ToRDNSequence, Marshal, Unmarshal, FillFromRDNSequence, String", New: func() func() {
			d := &d1{ef: enumFields()}
			n, _, _, _, _, _, _ := d.build(ch)
			return func() {
				seq := n.ToRDNSequence()
				der, err := zasn1.Marshal(seq)
				if err != nil {
					return
				}
				var back zpkix.RDNSequence
				if _, err := zasn1.Unmarshal(der, &back); err != nil {
					return
				}
				reFillAndBack(&back)
			}
		}})
	}
	for f, e := range ef {
		for a, al := range e.alts {
			if al.Core {
				name := "ExtraNames"
				if e.idx != extraField {
					name = fields[e.idx].name
				}
				d1op(fmt.Sprintf("%s alternative %d", name, a), []choice{{F: f, A: a}})
				break
			}
		}
	}
	for k := 0; k < 2; k++ { // every field non-default: first / second "Full" alternative of each field
		var ch []choice
		for f, e := range ef {
			seen := 0
			for a, al := range e.alts {
				if al.Full {
					if seen == k {
						ch = append(ch, choice{F: f, A: a})
					}
					seen++
				}
			}
		}
		d1op(fmt.Sprintf("all %d fields non-default (set %d)", len(ch), k), ch)
	}
	d2op := func(label string, der []byte) {
		ops = append(ops, nohb.Op{Name: "D2 " + label + ": asn1.Unmarshal, x509.parseName, FillFromRDNSequence, String, ToRDNSequence, Marshal", New: func() func() {
			in := append([]byte{}, der...)
			return func() {
				var seq zpkix.RDNSequence
				if rest, err := zasn1.Unmarshal(in, &seq); err == nil && len(rest) == 0 {
					reFillAndBack(&seq)
				}
				if p, err := zx509.VerifC22ParseName(in); err == nil && p != nil {
					reFillAndBack(p)
				}
			}
		}})
	}
	for _, i := range []int{2, 5, 6, 8, 9, 13, 23, 25, 26, 30} {
		v := d2Vals[i]
		d2op(fmt.Sprintf("CN with value tag %#02x (%d octets)", v.tag, len(v.content)), nameDER([][]atom{{{oidCN, v.tag, v.content}}}))
	}
	d2op("3 RDNs, 5 attributes", nameDER([][]atom{{d2B[0], d2B[2]}, {d2B[4], d2B[11]}, {d2B[12]}}))
	d2op("2 RDNs with unknown OIDs and non-string values", nameDER([][]atom{{d2B[5], d2B[6]}, {d2B[7], d2B[9], d2B[10]}}))

	// ONE parsed Name read by both calls of a pair (a fresh parse per pair): a parsed name sits inside every cached
	// certificate and is read from all goroutines that use the certificate; String, ToRDNSequence and the JSON view
	// are its read-only accessors (value receivers / documented as conversions), so they must not write to it.
	for _, sn := range []struct {
		label string
		der   []byte
	}{
		{"3 RDNs, 5 attributes", nameDER([][]atom{{d2B[0], d2B[2]}, {d2B[4], d2B[11]}, {d2B[12]}})},
		{"4 single-attribute RDNs C, O, OU-like, CN", nameDER([][]atom{{at(oidC, 0x13, "US")}, {d2B[2]}, {d2B[8]}, {d2B[1]}})},
	} {
		der := sn.der
		shared := rePairShared(func() *zpkix.Name {
			var seq zpkix.RDNSequence
			n := &zpkix.Name{}
			if rest, err := zasn1.Unmarshal(append([]byte{}, der...), &seq); err == nil && len(rest) == 0 {
				n.FillFromRDNSequence(&seq)
			}
			return n
		})
		for _, acc := range []struct {
			name string
			f    func(n *zpkix.Name)
		}{
			{"Name.String", func(n *zpkix.Name) { _ = n.String() }},
			{"Name.ToRDNSequence + asn1.Marshal", func(n *zpkix.Name) { zasn1.Marshal(n.ToRDNSequence()) }},
			{"OriginalRDNS.String", func(n *zpkix.Name) { _ = n.OriginalRDNS.String() }},
			{"Name.MarshalJSON + json.Marshal(&name)", func(n *zpkix.Name) { n.MarshalJSON(); json.Marshal(n) }},
		} {
			acc := acc
			ops = append(ops, nohb.Op{Name: acc.name + " on the SHARED parsed Name (" + sn.label + ")", New: func() func() {
				n := shared()
				return func() { acc.f(n) }
			}})
		}
	}
	return rePairing(ops)
}

// nohb.WorkerMain builds every pair with exactly two New calls (first call, then second call) and calls New for
// nothing else, so New calls number 2k and 2k+1 belong to pair k. rePairing counts them; rePairShared(mk) returns
// an accessor that hands both calls of a pair the same object and makes a fresh one for the next pair.
var reNewCalls int

func rePairing(ops []nohb.Op) []nohb.Op {
	for i := range ops {
		inner := ops[i].New
		ops[i].New = func() func() { reNewCalls++; return inner() }
	}
	return ops
}

func rePairShared[T any](mk func() T) func() T {
	pair, cur := -1, *new(T)
	return func() T {
		if p := (reNewCalls - 1) / 2; p != pair {
			pair, cur = p, mk()
		}
		return cur
	}
}

const reentrantMenuText = "D1: each of the 16 fields alone + two all-fields names through ToRDNSequence/Marshal/Unmarshal/FillFromRDNSequence/String; D2: 12 harness-written DER names through asn1.Unmarshal and x509.parseName, then Fill/String/ToRDNSequence/Marshal; ONE shared parsed Name (2 shapes, fresh per pair): String, ToRDNSequence+Marshal, OriginalRDNS.String, MarshalJSON/json.Marshal in all ordered pairs"

func reentrantPhase(c *ev.Ctx) {
	if c.Replay != nil {
		return // --replay re-executes one recorded witness of the main phase only
	}
	t0 := time.Now()
	o := nohb.Run(os.Getenv("VERIF_RACE_BIN"), nil, 10*time.Minute)
	if o.Broken != "" {
		c.Broken("re-entrancy pass: %s", o.Broken)
	}
	for _, sig := range o.Sigs() {
		c.Violation("re-entrancy: two calls on different goroutines share unsynchronised state: "+sig, map[string]any{"pair": o.Races[sig], "kind": "nohb"})
	}
	for k, v := range o.Panics {
		c.Violation("re-entrancy: "+k, map[string]any{"pair": v, "kind": "nohb"})
	}
	c.Outcome("re-entrancy pairs without a report", int64(o.Pairs))
	c.States.Add(int64(o.Pairs))
	c.Traces.Add(int64(o.Pairs))
	c.Set("reentrancy", map[string]any{"calls": o.Ops, "ordered_pairs": o.Pairs, "race_signatures": len(o.Races), "harness_only_reports": o.Harness, "canary_ok": o.CanaryOK,
		"seconds": time.Since(t0).Seconds(), "menu": reentrantMenuText,
		"method": "every ordered pair (a, b) of the menu: a to completion on one goroutine, then b on another, without a happens-before edge, in a -race build; a ThreadSanitizer report with both accesses in the repository is a violation"})
}
