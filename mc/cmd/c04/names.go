package main

// Name value probe: the string values of distinguished names are the one place where the
// template's content decides the ASN.1 TYPE of what is written (an untyped Go string becomes a
// PrintableString when every character is in the X.680 PrintableString set — minus '*' and '&',
// which Go's encoder keeps out — and a UTF8String otherwise). A wrong decision yields a
// certificate that strict parsers refuse, or that reports another name.
//
// The value alphabet is built by rule (the rune table of check C22):
//   - per UTF-8 length class (2, 3, 4 octets) one rune whose LOW BYTE (rune & 0xff) is a
//     PrintableString character and one whose low byte is not — an encoder that looks at anything
//     less than the whole rune classifies one of them wrongly —, each alone and between ASCII letters;
//   - the Latin-1 boundary runes U+0080, U+00FF, U+0100, alone and between ASCII letters;
//   - every punctuation character of the PrintableString set (' ( ) + , - . / : = ? and space) alone,
//     and all of them in one value;
//   - ASCII characters outside the set or kept out of it by the encoder ('*', '&', '@', '_'), alone and
//     between letters;
//   - three real-world names whose non-ASCII runes all have a printable low byte.
//
// Every value is put, alone, into every string-typed attribute field of pkix.Name that
// ToRDNSequence emits (15 fields) and into ExtraNames (an OID unknown to the package, X.520
// givenName, X.520 surname), at every position where a template string goes through the
// string-type selection of the ASN.1 encoder:
//   subject of an issued certificate | subject = issuer of a self-signed CA certificate |
//   issuer, through a parsed parent (that CA certificate) | issuer, through an unparsed parent
//   template | permitted directory-name constraint | excluded directory-name constraint.
// The oracle is the one of the template enumeration (evaluate): the certificate must be created,
// parse in zcrypto AND in Go's crypto/x509, report the template's names in both, and verify.
// The string type found on the wire is recorded per value class (outcome classes).

import (
	stdasn1 "encoding/asn1"
	"encoding/hex"
	"fmt"
	"sync"
	"unicode/utf8"

	zasn1 "github.com/zmap/zcrypto/encoding/asn1"
	"github.com/zmap/zcrypto/x509"
	"github.com/zmap/zcrypto/x509/pkix"
	"verifmc/internal/ev"
	"verifmc/internal/fx"
)

// x680Printable: the PrintableString character set of ITU-T X.680 §41.4.
func x680Printable(b byte) bool {
	switch {
	case 'A' <= b && b <= 'Z', 'a' <= b && b <= 'z', '0' <= b && b <= '9':
		return true
	}
	switch b {
	case ' ', '\'', '(', ')', '+', ',', '-', '.', '/', ':', '=', '?':
		return true
	}
	return false
}

type nameValue struct {
	v     string
	class string // what the value is there for (also the key of the wire-type outcome classes)
}

type probeRune struct {
	r        rune
	octets   int  // UTF-8 length the rule asks for
	lowPrint bool // the rule asks for a low byte inside / outside the PrintableString set
}

var probeRunes = []probeRune{
	{0x0141, 2, true},   // 'Ł' low byte 0x41 'A'
	{0x03a3, 2, false},  // 'Σ' low byte 0xa3
	{0x4e2d, 3, true},   // '中' low byte 0x2d '-'
	{0x65e5, 3, false},  // '日' low byte 0xe5
	{0x1f441, 4, true},  // low byte 0x41 'A'
	{0x1f600, 4, false}, // low byte 0x00
	{0x0080, 2, false},  // first rune beyond ASCII
	{0x00ff, 2, false},  // last Latin-1 rune
	{0x0100, 2, false},  // low byte 0x00
	{0x0120, 2, true},   // 'Ġ' low byte 0x20 ' ': the first rune beyond Latin-1 with a printable low byte
}

const printablePunct = "'()+,-./:=? "

var nameValues []nameValue

// buildNameValues builds the alphabet and proves that every rune has the property it was chosen for.
func buildNameValues() error {
	nameValues = []nameValue{{"A", "plain PrintableString value"}}
	for _, p := range probeRunes {
		if utf8.RuneLen(p.r) != p.octets || x680Printable(byte(p.r)) != p.lowPrint {
			return fmt.Errorf("rune U+%04X: %d octets, low byte printable=%v; the table says %d, %v", p.r, utf8.RuneLen(p.r), x680Printable(byte(p.r)), p.octets, p.lowPrint)
		}
		lb := "low byte outside the PrintableString set"
		if p.lowPrint {
			lb = "low byte inside the PrintableString set"
		}
		cl := fmt.Sprintf("%d-octet rune, %s", p.octets, lb)
		nameValues = append(nameValues, nameValue{string(p.r), cl + ", alone"}, nameValue{"a" + string(p.r) + "b", cl + ", between ASCII letters"})
	}
	for _, ch := range printablePunct {
		nameValues = append(nameValues, nameValue{string(ch), "PrintableString punctuation character, alone"})
	}
	nameValues = append(nameValues, nameValue{"a" + printablePunct + "b", "every PrintableString punctuation character in one value"})
	for _, ch := range "*&@_" {
		if x680Printable(byte(ch)) {
			return fmt.Errorf("%q is a PrintableString character", ch)
		}
		nameValues = append(nameValues, nameValue{string(ch), "ASCII character outside (or kept out of) the PrintableString set, alone"},
			nameValue{"a" + string(ch) + "b", "ASCII character outside (or kept out of) the PrintableString set, between letters"})
	}
	for _, v := range []string{"Paweł Kowalski", "İstanbul", "Erdős"} {
		for _, r := range v {
			if !x680Printable(byte(r)) {
				return fmt.Errorf("%q: rune U+%04X has a low byte outside the PrintableString set", v, r)
			}
		}
		nameValues = append(nameValues, nameValue{v, "real-world name whose non-ASCII runes all have a printable low byte"})
	}
	seen := map[string]bool{}
	for _, v := range nameValues {
		if seen[v.v] || !utf8.ValidString(v.v) {
			return fmt.Errorf("value %q twice in the alphabet or not UTF-8", v.v)
		}
		seen[v.v] = true
	}
	return nil
}

// needsUTF8: the value cannot be a PrintableString (X.680) — or Go's encoder documents that it keeps it out
// ('*' and '&', encoding/asn1 marshal.go: "we use UTF8String for strings containing * or &").
func needsUTF8(v string) (must bool, byChoice bool) {
	for i := 0; i < len(v); i++ {
		if !x680Printable(v[i]) {
			if v[i] == '*' || v[i] == '&' {
				byChoice = true
				continue
			}
			must = true
		}
	}
	return must, byChoice && !must
}

type nameField struct {
	name string
	oid  string
	set  func(n *pkix.Name, v string)
}

var probeExtraOID = zasn1.ObjectIdentifier{1, 2, 3, 4, 5}

var nameFields = []nameField{
	{"CommonName", oidCN, func(n *pkix.Name, v string) { n.CommonName = v }},
	{"SerialNumber", oidSerial, func(n *pkix.Name, v string) { n.SerialNumber = v }},
	{"Country", oidC, func(n *pkix.Name, v string) { n.Country = []string{v} }},
	{"Organization", oidO, func(n *pkix.Name, v string) { n.Organization = []string{v} }},
	{"OrganizationalUnit", oidOU, func(n *pkix.Name, v string) { n.OrganizationalUnit = []string{v} }},
	{"Locality", oidL, func(n *pkix.Name, v string) { n.Locality = []string{v} }},
	{"Province", oidST, func(n *pkix.Name, v string) { n.Province = []string{v} }},
	{"StreetAddress", oidStreet, func(n *pkix.Name, v string) { n.StreetAddress = []string{v} }},
	{"PostalCode", oidPostal, func(n *pkix.Name, v string) { n.PostalCode = []string{v} }},
	{"DomainComponent", oidDC, func(n *pkix.Name, v string) { n.DomainComponent = []string{v} }},
	{"EmailAddress", oidEmail, func(n *pkix.Name, v string) { n.EmailAddress = []string{v} }},
	{"JurisdictionLocality", oidJurL, func(n *pkix.Name, v string) { n.JurisdictionLocality = []string{v} }},
	{"JurisdictionProvince", oidJurST, func(n *pkix.Name, v string) { n.JurisdictionProvince = []string{v} }},
	{"JurisdictionCountry", oidJurC, func(n *pkix.Name, v string) { n.JurisdictionCountry = []string{v} }},
	{"OrganizationIDs", oidOrgID, func(n *pkix.Name, v string) { n.OrganizationIDs = []string{v} }},
	{"ExtraNames[1.2.3.4.5]", "1.2.3.4.5", func(n *pkix.Name, v string) {
		n.ExtraNames = []pkix.AttributeTypeAndValue{{Type: append(zasn1.ObjectIdentifier(nil), probeExtraOID...), Value: v}}
	}},
	{"ExtraNames[givenName]", oidGiven, func(n *pkix.Name, v string) {
		n.ExtraNames = []pkix.AttributeTypeAndValue{{Type: zasn1.ObjectIdentifier{2, 5, 4, 42}, Value: v}}
	}},
	{"ExtraNames[surname]", oidSurname, func(n *pkix.Name, v string) {
		n.ExtraNames = []pkix.AttributeTypeAndValue{{Type: zasn1.ObjectIdentifier{2, 5, 4, 4}, Value: v}}
	}},
}

const (
	posSubject = iota
	posSelf
	posIssuerParsed
	posIssuerStruct
	posPermittedDir
	posExcludedDir
	nPos
)

var posName = [nPos]string{
	"subject of an issued certificate",
	"subject and issuer of a self-signed CA certificate",
	"issuer, through a parsed parent certificate of that name",
	"issuer, through an unparsed parent template of that name",
	"permitted directory-name constraint",
	"excluded directory-name constraint",
}

type nameCase struct {
	F int `json:"field"`
	V int `json:"value"`
	P int `json:"position"`
	// labels (ignored by the replay)
	Field    string `json:"field_name,omitempty"`
	Value    string `json:"value_text,omitempty"`
	ValueHex string `json:"value_utf8_hex,omitempty"`
	Class    string `json:"value_class,omitempty"`
	Position string `json:"position_name,omitempty"`
}

func (n nameCase) valid() bool {
	return n.F >= 0 && n.F < len(nameFields) && n.V >= 0 && n.V < len(nameValues) && n.P >= 0 && n.P < nPos
}

func (n nameCase) labelled() *nameCase {
	n.Field, n.Value, n.ValueHex = nameFields[n.F].name, nameValues[n.V].v, hex.EncodeToString([]byte(nameValues[n.V].v))
	n.Class, n.Position = nameValues[n.V].class, posName[n.P]
	return &n
}

// probeName: the distinguished name of a case: a plain common name plus the probed attribute (the probed
// attribute alone when it IS the common name).
func probeName(nc nameCase, cn string) pkix.Name {
	n := pkix.Name{CommonName: cn}
	nameFields[nc.F].set(&n, nameValues[nc.V].v)
	return n
}

// mintNameParent issues and parses a self-signed CA certificate of that name with the Ed25519 signer. The same
// creation is a case of its own (posSelf), where its failure is the verdict; here a failure only skips the case.
func mintNameParent(name pkix.Name) (c *x509.Certificate, why string) {
	t := newParentStruct()
	t.Subject = name
	var der []byte
	var err error
	if p, msg, site := ev.Try(func() {
		der, err = x509.CreateCertificate(fx.NewRand("c04-name-parent"), t, t, signerKeys[0].Public(), signerKeys[0])
		if err == nil {
			c, err = x509.ParseCertificate(der)
		}
	}); p {
		return nil, "panic@" + site + ": " + ev.MsgClass(msg)
	}
	if err != nil {
		return nil, ev.MsgClass(err.Error())
	}
	return c, ""
}

func evalName(nc nameCase) *result {
	s := build(nil)
	switch nc.P {
	case posSubject:
		s.t.Subject = probeName(nc, "leaf.example")
	case posSelf:
		s.t.Subject = probeName(nc, "Verif C04 CA")
		s.t.BasicConstraintsValid, s.t.IsCA, s.t.MaxPathLen = true, true, -1
		s.issuer = issSelf
		s.normalise()
	case posIssuerParsed, posIssuerStruct:
		name := probeName(nc, "Verif C04 CA")
		cp, why := mintNameParent(name)
		if cp == nil {
			return &result{ops: 1, classes: []string{"issuer position skipped: the CA certificate of that name cannot be issued and parsed (verdict at the self-signed position): " + why}}
		}
		s.customParent, s.customName = cp, name
		if nc.P == posIssuerParsed {
			s.issuer = issByCustom
		} else {
			s.issuer = issByStruct
			s.parentStruct.Subject = probeName(nc, "Verif C04 CA") // its own copy: the call gets nothing shared with the expectation
		}
	case posPermittedDir:
		s.t.PermittedDirectoryNames = []x509.GeneralSubtreeName{{Data: probeName(nc, "dir")}}
	case posExcludedDir:
		s.t.ExcludedDirectoryNames = []x509.GeneralSubtreeName{{Data: probeName(nc, "dir")}}
	}
	r := evaluate(s)
	if r.changed {
		r.classes = append(r.classes, "probe: CreateCertificate changed its inputs")
	}
	if r.der != nil && nc.P <= posIssuerStruct {
		r.classes = append(r.classes, wireTypeClass(r.der, nc))
	}
	return r
}

// wireTypeClass names the ASN.1 string type the probed attribute value has in the issued certificate
// (subject for the subject positions, issuer for the issuer positions), found with the standard encoding/asn1.
func wireTypeClass(der []byte, nc nameCase) string {
	tag := func() int {
		var outer struct {
			TBS stdasn1.RawValue
			Alg stdasn1.RawValue
			Sig stdasn1.BitString
		}
		if _, err := stdasn1.Unmarshal(der, &outer); err != nil {
			return -1
		}
		var el []stdasn1.RawValue
		for rest := outer.TBS.Bytes; len(rest) > 0; {
			var e stdasn1.RawValue
			var err error
			if rest, err = stdasn1.Unmarshal(rest, &e); err != nil {
				return -1
			}
			if e.Class == stdasn1.ClassUniversal {
				el = append(el, e)
			}
		}
		if len(el) != 6 { // serialNumber, signature, issuer, validity, subject, subjectPublicKeyInfo
			return -1
		}
		dn := el[4]
		if nc.P == posIssuerParsed || nc.P == posIssuerStruct {
			dn = el[2]
		}
		for rdns := dn.Bytes; len(rdns) > 0; {
			var set stdasn1.RawValue
			var err error
			if rdns, err = stdasn1.Unmarshal(rdns, &set); err != nil {
				return -1
			}
			for atvs := set.Bytes; len(atvs) > 0; {
				var a struct {
					Type  stdasn1.ObjectIdentifier
					Value stdasn1.RawValue
				}
				if atvs, err = stdasn1.Unmarshal(atvs, &a); err != nil {
					return -1
				}
				if a.Type.String() == nameFields[nc.F].oid && a.Value.Class == stdasn1.ClassUniversal {
					return a.Value.Tag
				}
			}
		}
		return -2
	}()
	typ := fmt.Sprintf("universal tag %d", tag)
	switch tag {
	case -1:
		typ = "certificate not walkable"
	case -2:
		typ = "attribute not found"
	case stdasn1.TagUTF8String:
		typ = "UTF8String"
	case stdasn1.TagPrintableString:
		typ = "PrintableString"
	case stdasn1.TagIA5String:
		typ = "IA5String"
	case stdasn1.TagT61String:
		typ = "TeletexString"
	case stdasn1.TagBMPString:
		typ = "BMPString"
	}
	must, choice := needsUTF8(nameValues[nc.V].v)
	kind := "value inside the PrintableString set"
	switch {
	case must:
		kind = "value with a character outside the PrintableString set"
	case choice:
		kind = "value inside the PrintableString set but for '*' / '&'"
	}
	return "wire type: " + kind + " -> " + typ
}

func runNameProbe(c *ev.Ctx) {
	var cases []nameCase
	for f := range nameFields {
		for v := range nameValues {
			for p := 0; p < nPos; p++ {
				cases = append(cases, nameCase{F: f, V: v, P: p})
			}
		}
	}
	var fl, vl []string
	for _, f := range nameFields {
		fl = append(fl, f.name)
	}
	for _, v := range nameValues {
		vl = append(vl, fmt.Sprintf("%q (%s)", v.v, v.class))
	}
	c.Set("name_probe", map[string]any{"fields": fl, "values": vl, "positions": posName[:], "cases": len(cases)})
	W := c.Workers()
	hists := make([]ev.Hist, W)
	for i := range hists {
		hists[i] = ev.Hist{}
	}
	var mu sync.Mutex
	okByPos := map[int]int{}
	done := c.Parallel(len(cases), func(w, i int) {
		nc := cases[i]
		r := evalName(nc)
		for _, cl := range r.classes {
			hists[w]["name probe: "+cl]++
		}
		c.States.Add(1)
		c.Evaluations.Add(1)
		c.Transitions.Add(int64(r.ops))
		if r.created {
			c.Distinct.Add(1)
			if len(r.viol) == 0 {
				c.Traces.Add(1)
				mu.Lock()
				okByPos[nc.P]++
				mu.Unlock()
			}
		}
		for _, v := range r.viol {
			c.Violation(v.sig, witness{Probe: "name", Name: nc.labelled(), Detail: v.detail})
		}
	})
	for _, h := range hists {
		c.Merge(h)
	}
	if !done {
		c.Incomplete("budget hit during the name value probe")
	}
	ok := map[string]int{}
	for p, n := range okByPos {
		ok[posName[p]] = n
	}
	c.Set("name_probe_cases_round_tripped_by_position", ok)
}
