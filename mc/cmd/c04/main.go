// C04 — certificate issuance round-trips through parsing.
//
// Engine E2 (G-field): a certificate template is a record of 24 fields, each
// with a default and a short list of alternatives (DESIGN.md C04). Every
// template with at most d non-default fields (d = 2 quick, 3 thorough) is
// handed to the real x509.CreateCertificate; the DER is parsed back with
// x509.ParseCertificate and compared, field by field, with what a reference
// EXPECTATION FUNCTION (oracle.go) derives from the template. The expectation
// function is written from the documentation of CreateCertificate, of the
// Certificate fields and of pkix.Name, and from RFC 5280 — never from
// buildExtensions.
//
// Independent cross-checks on every produced certificate:
//   - Go's standard crypto/x509 parses the same DER (where it accepts it) and
//     its fields are compared with the same expectation;
//   - the signature is verified over the TBS bytes (cut out with the standard
//     encoding/asn1) with the standard crypto/rsa, crypto/ecdsa,
//     crypto/ed25519 and the signer's fixture public key;
//   - CheckSignatureFrom(parent) of the real code.
//
// A supplementary axis enumerates every exported ExtKeyUsage constant as the
// only extended key usage of the default template.
//
// Reuse histories (reuse.go): the same template/parent objects go through
// several CreateCertificate calls and are edited in place in between; the last
// certificate must report the template as it is then, and its TBSCertificate
// must equal the one issued from freshly built objects. An input immutability
// probe (snap.go) runs around every creation call.
package main

import (
	"crypto"
	"encoding/hex"
	"encoding/json"
	"fmt"
	"math/big"
	"net"
	"sort"
	"strings"
	"sync"
	"time"

	zasn1 "github.com/zmap/zcrypto/encoding/asn1"
	"github.com/zmap/zcrypto/x509"
	"github.com/zmap/zcrypto/x509/pkix"
	"verifmc/internal/ev"
	"verifmc/internal/fx"
)

// ------------------------------------------------------------------ keys

type keyKind struct {
	name    string
	signer  string // fixture used when this kind signs (CA key / self-signed key)
	subject string // fixture used as the subject key of an issued certificate
}

var kinds = []keyKind{
	{"Ed25519", "c04-ca", "c04-leaf"},
	{"RSA-1024", "rsa1024", "rsa1024b"},
	{"P-224", "p224", "p224b"},
	{"P-256", "p256", "p256b"},
	{"P-384", "p384", "p384b"},
	{"P-521", "p521", "p521b"},
	// large enough for every RSA-PSS variant (SHA-512 with a 64-byte salt needs >= 130 modulus bytes)
	{"RSA-2048", "rsa2048", "rsa2048b"},
	{"RSA-3072", "rsa3072", "rsa4096"}, // the subject key of issued certificates is the RSA-4096 fixture
}

var (
	signerKeys  []crypto.Signer // by kind, the signing key
	subjectKeys []crypto.Signer // by kind, the subject key of issued certificates
)

func loadKeys() {
	for _, k := range kinds {
		signerKeys = append(signerKeys, fx.Signer(k.signer))
		subjectKeys = append(subjectKeys, fx.Signer(k.subject))
	}
}

// ------------------------------------------------------------------ scenario

// issuer alternatives
const (
	issByP0     = iota // issued by the parsed CA certificate with the default CA name
	issSelf            // self-signed: parent == template, pub == signer's public key
	issByP1            // issued by a parsed CA whose subject has name shape 1
	issByP2            // ... shape 2
	issByP3            // ... shape 3 (empty name)
	issByStruct        // issued; parent handed over as an unparsed template struct (Subject, no RawSubject)
	issByCustom        // issued by a parsed CA certificate minted by the name probe (names.go); not an alternative of the field table
)

type scenario struct {
	t        *x509.Certificate
	subjKind int
	signKind int
	issuer   int
	// the unparsed parent template handed over when issuer == issByStruct: private to the scenario, so
	// that a history can rename it between calls and so that nothing the creation call might write into
	// it is shared between goroutines
	parentStruct *x509.Certificate
	// name probe (names.go): a parsed CA certificate with the signer kind's key, minted by the probe for one
	// distinguished name (the parent argument when issuer == issByCustom, the verifier when issuer == issByStruct)
	customParent *x509.Certificate
	customName   pkix.Name
}

func (s *scenario) self() bool { return s.issuer == issSelf }

func (s *scenario) parentShape() int {
	switch s.issuer {
	case issByP1:
		return 1
	case issByP2:
		return 2
	case issByP3:
		return 3
	}
	return 0
}

// name shapes (value alphabet of DESIGN C22: printable, space, UTF-8, '@', '*', '#', ',').
func nameShape(i int, cn string) pkix.Name {
	switch i {
	case 1: // every multi-valued standard field, SET ordering ("b","a"), non-printable characters
		return pkix.Name{
			Country:            []string{"US"},
			Organization:       []string{"b", "a"},
			OrganizationalUnit: []string{"a b"},
			Locality:           []string{"é"},
			Province:           []string{"CA"},
			StreetAddress:      []string{"a,b"},
			PostalCode:         []string{"#1"},
			SerialNumber:       "12",
			CommonName:         "*.x",
		}
	case 2: // zcrypto-specific fields and an attribute unknown to the package
		return pkix.Name{
			CommonName:      "A",
			EmailAddress:    []string{"a@b.c"},
			DomainComponent: []string{"example", "com"},
			ExtraNames:      []pkix.AttributeTypeAndValue{{Type: zasn1.ObjectIdentifier{1, 2, 3, 4, 5}, Value: "z"}},
		}
	case 3: // empty distinguished name
		return pkix.Name{}
	}
	return pkix.Name{CommonName: cn}
}

func oid(a ...int) zasn1.ObjectIdentifier { return zasn1.ObjectIdentifier(a) }

var (
	t0NotBefore = fx.T0.Add(-24 * time.Hour)
	t0NotAfter  = fx.T0.Add(24 * time.Hour)
	zonePlus    = time.FixedZone("+0530", 5*3600+1800)
	zoneMinus   = time.FixedZone("-0800", -8*3600)
)

// the six alternatives of NotBefore / NotAfter (DESIGN C04)
func timeAlt(i int, notAfter bool) time.Time {
	switch i {
	case 1:
		return time.Date(1950, 1, 1, 0, 0, 0, 0, time.UTC) // first UTCTime year
	case 2:
		return time.Date(2049, 12, 31, 23, 59, 59, 0, time.UTC) // last UTCTime second
	case 3:
		return time.Date(2050, 1, 1, 0, 0, 0, 0, time.UTC) // first GeneralizedTime second
	case 4:
		return time.Date(9999, 12, 31, 23, 59, 59, 0, time.UTC)
	case 5: // nanoseconds: must come back truncated to the second
		return time.Date(2026, 3, 4, 5, 6, 7, 999999999, time.UTC)
	case 6: // non-UTC zone (crosses a day boundary in UTC)
		if notAfter {
			return time.Date(2027, 6, 30, 20, 15, 30, 0, zoneMinus)
		}
		return time.Date(2025, 7, 1, 2, 15, 30, 0, zonePlus)
	}
	if notAfter {
		return t0NotAfter
	}
	return t0NotBefore
}

func bytesN(n int, first byte) []byte {
	b := make([]byte, n)
	for i := range b {
		b[i] = first + byte(i)
	}
	return b
}

// ------------------------------------------------------------------ fields

type alt struct {
	label string
	apply func(s *scenario)
}

type field struct {
	name string
	alts []alt // alts[0] is the default (apply may be nil)
}

func strs(v ...string) []string { return v }

func gss(v ...string) []x509.GeneralSubtreeString {
	var out []x509.GeneralSubtreeString
	for _, s := range v {
		out = append(out, x509.GeneralSubtreeString{Data: s})
	}
	return out
}

// exact-capacity copies: CreateCertificate appends to template slices
// (name-constraint IP ranges); a shared backing array would be a harness race.
func ipb(b ...byte) net.IP { return append(make(net.IP, 0, len(b)), b...) }

func v4in16(a, b, c, d byte) net.IP {
	return ipb(0, 0, 0, 0, 0, 0, 0, 0, 0, 0, 0xff, 0xff, a, b, c, d)
}

func v6(hexs string) net.IP {
	b, err := hex.DecodeString(hexs)
	if err != nil || len(b) != 16 {
		panic("bad v6 literal")
	}
	return ipb(b...)
}

var unknownExtOID = oid(1, 3, 6, 1, 4, 1, 99999, 1)

func buildFields() []field {
	var F []field
	add := func(name string, alts ...alt) { F = append(F, field{name, alts}) }
	def := alt{label: "default"}

	add("SerialNumber", alt{"1", func(s *scenario) { s.t.SerialNumber = big.NewInt(1) }},
		alt{"2^64", func(s *scenario) { s.t.SerialNumber = new(big.Int).Lsh(big.NewInt(1), 64) }},
		alt{"2^159-1", func(s *scenario) {
			s.t.SerialNumber = new(big.Int).Sub(new(big.Int).Lsh(big.NewInt(1), 159), big.NewInt(1))
		}})

	add("Subject", alt{"CN=leaf.example", func(s *scenario) { s.t.Subject = nameShape(0, "leaf.example") }},
		alt{"shape1-multivalued", func(s *scenario) { s.t.Subject = nameShape(1, "") }},
		alt{"shape2-extra-names", func(s *scenario) { s.t.Subject = nameShape(2, "") }},
		alt{"shape3-empty", func(s *scenario) { s.t.Subject = nameShape(3, "") }})

	tl := []string{"T0-24h", "1950-01-01", "2049-12-31T23:59:59", "2050-01-01", "9999-12-31T23:59:59", "nanoseconds", "non-UTC-zone"}
	nb := []alt{{tl[0], func(s *scenario) { s.t.NotBefore = timeAlt(0, false) }}}
	na := []alt{{"T0+24h", func(s *scenario) { s.t.NotAfter = timeAlt(0, true) }}}
	for i := 1; i <= 6; i++ {
		i := i
		nb = append(nb, alt{tl[i], func(s *scenario) { s.t.NotBefore = timeAlt(i, false) }})
		na = append(na, alt{tl[i], func(s *scenario) { s.t.NotAfter = timeAlt(i, true) }})
	}
	add("NotBefore", nb...)
	add("NotAfter", na...)

	ku := []alt{{"0", func(s *scenario) { s.t.KeyUsage = 0 }}}
	for b := 0; b <= 8; b++ {
		b := b
		ku = append(ku, alt{fmt.Sprintf("bit%d", b), func(s *scenario) { s.t.KeyUsage = x509.KeyUsage(1 << uint(b)) }})
	}
	ku = append(ku, alt{"all-9-bits", func(s *scenario) { s.t.KeyUsage = x509.KeyUsage(0x1ff) }})
	add("KeyUsage", ku...)

	add("ExtKeyUsage", alt{"nil", func(s *scenario) { s.t.ExtKeyUsage = nil }},
		alt{"[ServerAuth]", func(s *scenario) { s.t.ExtKeyUsage = []x509.ExtKeyUsage{x509.ExtKeyUsageServerAuth} }},
		alt{"[Any,ClientAuth]", func(s *scenario) {
			s.t.ExtKeyUsage = []x509.ExtKeyUsage{x509.ExtKeyUsageAny, x509.ExtKeyUsageClientAuth}
		}})
	add("UnknownExtKeyUsage", alt{"nil", func(s *scenario) { s.t.UnknownExtKeyUsage = nil }},
		alt{"[1.3.6.1.4.1.99999.7]", func(s *scenario) {
			s.t.UnknownExtKeyUsage = []zasn1.ObjectIdentifier{oid(1, 3, 6, 1, 4, 1, 99999, 7)}
		}})

	// BasicConstraintsValid × IsCA × MaxPathLen{-1,0,1,5} × MaxPathLenZero: full product, default (true,false,0,false)
	bc := []alt{{"valid=true,ca=false,len=0,zero=false", func(s *scenario) {
		s.t.BasicConstraintsValid, s.t.IsCA, s.t.MaxPathLen, s.t.MaxPathLenZero = true, false, 0, false
	}}}
	for _, valid := range []bool{true, false} {
		for _, ca := range []bool{false, true} {
			for _, l := range []int{0, -1, 1, 5} {
				for _, z := range []bool{false, true} {
					if valid && !ca && l == 0 && !z {
						continue // the default
					}
					valid, ca, l, z := valid, ca, l, z
					bc = append(bc, alt{fmt.Sprintf("valid=%v,ca=%v,len=%d,zero=%v", valid, ca, l, z), func(s *scenario) {
						s.t.BasicConstraintsValid, s.t.IsCA, s.t.MaxPathLen, s.t.MaxPathLenZero = valid, ca, l, z
					}})
				}
			}
		}
	}
	add("BasicConstraints", bc...)

	add("SubjectKeyId", alt{"nil", func(s *scenario) { s.t.SubjectKeyId = nil }},
		alt{"1-byte", func(s *scenario) { s.t.SubjectKeyId = []byte{0x5a} }},
		alt{"20-bytes", func(s *scenario) { s.t.SubjectKeyId = bytesN(20, 0x10) }})
	add("AuthorityKeyId", alt{"nil", func(s *scenario) { s.t.AuthorityKeyId = nil }},
		alt{"1-byte", func(s *scenario) { s.t.AuthorityKeyId = []byte{0xa5} }},
		alt{"20-bytes", func(s *scenario) { s.t.AuthorityKeyId = bytesN(20, 0x80) }})

	add("DNSNames", alt{"nil", func(s *scenario) { s.t.DNSNames = nil }},
		alt{"1", func(s *scenario) { s.t.DNSNames = strs("leaf.example") }},
		alt{"3-incl-wildcard", func(s *scenario) { s.t.DNSNames = strs("a.example", "*.b.example", "xn--bcher-kva.example") }},
		alt{"non-IA5(out-of-domain)", func(s *scenario) { s.t.DNSNames = strs("bücher.example") }})
	add("EmailAddresses", alt{"nil", func(s *scenario) { s.t.EmailAddresses = nil }},
		alt{"1", func(s *scenario) { s.t.EmailAddresses = strs("user@example.com") }},
		alt{"2", func(s *scenario) { s.t.EmailAddresses = strs("a@b.c", "x.y@sub.example.org") }})
	add("IPAddresses", alt{"nil", func(s *scenario) { s.t.IPAddresses = nil }},
		alt{"v4-4-byte", func(s *scenario) { s.t.IPAddresses = []net.IP{ipb(192, 0, 2, 1)} }},
		alt{"v4-16-byte-form", func(s *scenario) { s.t.IPAddresses = []net.IP{v4in16(192, 0, 2, 1)} }},
		alt{"v6", func(s *scenario) { s.t.IPAddresses = []net.IP{v6("20010db8000000000000000000000001")} }},
		alt{"v4+v4in16+v6", func(s *scenario) {
			s.t.IPAddresses = []net.IP{ipb(10, 0, 0, 1), v4in16(198, 51, 100, 7), v6("fe800000000000000000000000000001")}
		}})

	add("OCSPServer", alt{"nil", func(s *scenario) { s.t.OCSPServer = nil }},
		alt{"1", func(s *scenario) { s.t.OCSPServer = strs("http://ocsp.example/") }},
		alt{"2", func(s *scenario) { s.t.OCSPServer = strs("http://ocsp1.example/", "http://ocsp2.example/q?x=1") }})
	add("IssuingCertificateURL", alt{"nil", func(s *scenario) { s.t.IssuingCertificateURL = nil }},
		alt{"1", func(s *scenario) { s.t.IssuingCertificateURL = strs("http://ca.example/ca.crt") }},
		alt{"2", func(s *scenario) {
			s.t.IssuingCertificateURL = strs("http://ca.example/a.crt", "ldap://ca.example/cn=ca")
		}})
	add("CRLDistributionPoints", alt{"nil", func(s *scenario) { s.t.CRLDistributionPoints = nil }},
		alt{"1", func(s *scenario) { s.t.CRLDistributionPoints = strs("http://crl.example/ca.crl") }},
		alt{"2", func(s *scenario) {
			s.t.CRLDistributionPoints = strs("http://crl.example/a.crl", "http://crl2.example/b.crl")
		}})
	add("PolicyIdentifiers", alt{"nil", func(s *scenario) { s.t.PolicyIdentifiers = nil }},
		alt{"1", func(s *scenario) { s.t.PolicyIdentifiers = []zasn1.ObjectIdentifier{oid(2, 23, 140, 1, 2, 1)} }},
		alt{"2", func(s *scenario) {
			s.t.PolicyIdentifiers = []zasn1.ObjectIdentifier{oid(1, 3, 6, 1, 4, 1, 99999, 1, 2), oid(2, 999, 3)}
		}})

	add("NameConstraints", alt{"none", func(s *scenario) {
		s.t.PermittedDNSNames, s.t.ExcludedDNSNames, s.t.PermittedEmailAddresses, s.t.ExcludedEmailAddresses = nil, nil, nil, nil
		s.t.PermittedDirectoryNames, s.t.ExcludedDirectoryNames, s.t.PermittedIPAddresses, s.t.ExcludedIPAddresses = nil, nil, nil, nil
	}},
		alt{"dns-permitted", func(s *scenario) { s.t.PermittedDNSNames = gss("example.com") }},
		alt{"dns-excluded", func(s *scenario) { s.t.ExcludedDNSNames = gss(".bad.example", "other.test") }},
		alt{"email", func(s *scenario) {
			s.t.PermittedEmailAddresses = gss("example.com")
			s.t.ExcludedEmailAddresses = gss("root@example.com")
		}},
		alt{"directory-name", func(s *scenario) {
			s.t.PermittedDirectoryNames = []x509.GeneralSubtreeName{{Data: pkix.Name{Country: strs("US"), Organization: strs("Example")}}}
			s.t.ExcludedDirectoryNames = []x509.GeneralSubtreeName{{Data: pkix.Name{CommonName: "bad é"}}}
		}},
		alt{"ipv4-range", func(s *scenario) {
			s.t.PermittedIPAddresses = []x509.GeneralSubtreeIP{{Data: net.IPNet{IP: ipb(10, 0, 0, 0), Mask: net.IPMask(ipb(255, 0, 0, 0))}}}
		}},
		alt{"ipv6-range", func(s *scenario) {
			s.t.ExcludedIPAddresses = []x509.GeneralSubtreeIP{{Data: net.IPNet{
				IP:   v6("20010db8000000000000000000000000"),
				Mask: net.IPMask(v6("ffffffff000000000000000000000000"))}}}
		}},
		// the addresses of the two ranges are slices of ONE packed table of IPv4 addresses (tab[4*i:4*i+4],
		// capacity reaching to the end of the table), the masks likewise: ordinary Go values, nothing in
		// the documentation asks for exact-capacity slices. The expectation is taken from a separate copy.
		alt{"2-ipv4-ranges-sliced-from-one-packed-table", func(s *scenario) {
			tab := []byte{10, 0, 0, 0, 192, 168, 0, 0}
			msk := []byte{255, 0, 0, 0, 255, 255, 0, 0}
			s.t.PermittedIPAddresses = []x509.GeneralSubtreeIP{
				{Data: net.IPNet{IP: net.IP(tab[0:4]), Mask: net.IPMask(msk[0:4])}},
				{Data: net.IPNet{IP: net.IP(tab[4:8]), Mask: net.IPMask(msk[4:8])}}}
		}},
		alt{"ipv4-16-byte-ip-with-4-byte-mask(out-of-domain)", func(s *scenario) {
			s.t.PermittedIPAddresses = []x509.GeneralSubtreeIP{{Data: net.IPNet{IP: v4in16(10, 0, 0, 0), Mask: net.IPMask(ipb(255, 0, 0, 0))}}}
		}})
	add("NameConstraintsCritical", alt{"false", func(s *scenario) { s.t.NameConstraintsCritical = false }},
		alt{"true", func(s *scenario) { s.t.NameConstraintsCritical = true }})

	ex := []alt{{"none", func(s *scenario) { s.t.ExtraExtensions = nil }},
		{"unknown-oid", func(s *scenario) {
			s.t.ExtraExtensions = []pkix.Extension{{Id: unknownExtOID, Value: []byte{0x05, 0x00}}}
		}}}
	for i := range overrides {
		i := i
		ex = append(ex, alt{"override-" + overrides[i].name, func(s *scenario) {
			o := overrides[i]
			s.t.ExtraExtensions = []pkix.Extension{{Id: oid(o.oid...), Critical: o.critical, Value: append([]byte(nil), o.value...)}}
		}})
	}
	add("ExtraExtensions", ex...)

	sa := []alt{{"0", func(s *scenario) { s.t.SignatureAlgorithm = 0 }}}
	for a := x509.MD2WithRSA; a <= x509.Ed25519Sig; a++ {
		a := a
		sa = append(sa, alt{a.String(), func(s *scenario) { s.t.SignatureAlgorithm = a }})
	}
	add("SignatureAlgorithm", sa...)

	sk := []alt{{kinds[0].name, func(s *scenario) { s.subjKind = 0 }}}
	gk := []alt{{kinds[0].name, func(s *scenario) { s.signKind = 0 }}}
	for k := 1; k < len(kinds); k++ {
		k := k
		sk = append(sk, alt{kinds[k].name, func(s *scenario) { s.subjKind = k }})
		gk = append(gk, alt{kinds[k].name, func(s *scenario) { s.signKind = k }})
	}
	add("SubjectKey", sk...)
	add("SignerKey", gk...)

	add("Issuer", alt{"issued-by-parsed-CA", func(s *scenario) { s.issuer = issByP0 }},
		alt{"self-signed", func(s *scenario) { s.issuer = issSelf }},
		alt{"issued-by-CA-name-shape1", func(s *scenario) { s.issuer = issByP1 }},
		alt{"issued-by-CA-name-shape2", func(s *scenario) { s.issuer = issByP2 }},
		alt{"issued-by-CA-empty-name", func(s *scenario) { s.issuer = issByP3 }},
		alt{"issued-by-unparsed-parent-struct", func(s *scenario) { s.issuer = issByStruct }})
	_ = def
	return F
}

var fields []field

// assignment: the non-default fields, ascending field index
type assign [][2]int

func build(a assign) *scenario {
	s := &scenario{t: &x509.Certificate{
		SerialNumber:          big.NewInt(1),
		Subject:               nameShape(0, "leaf.example"),
		NotBefore:             t0NotBefore,
		NotAfter:              t0NotAfter,
		BasicConstraintsValid: true,
	}, parentStruct: newParentStruct()}
	for _, fa := range a {
		s.set(fa[0], fa[1])
	}
	return s
}

// set gives field f the alternative a, in place, on the scenario's existing objects.
func (s *scenario) set(f, a int) {
	if ap := fields[f].alts[a].apply; ap != nil {
		ap(s)
	}
	s.normalise()
}

func (s *scenario) normalise() {
	if s.self() {
		s.subjKind = s.signKind // a self-signed certificate certifies the signer's own key
	}
}

// defaultCAName is the subject of the shape-0 CA fixtures and of the unparsed parent template.
func defaultCAName() pkix.Name {
	return pkix.Name{CommonName: "Verif C04 CA", Organization: strs("Verif")}
}

// newParentStruct is a CA template as a caller would hold it before (or instead of) parsing the
// issued CA certificate: only the documented inputs of CreateCertificate's parent are set.
func newParentStruct() *x509.Certificate {
	return &x509.Certificate{
		SerialNumber:          big.NewInt(1000),
		Subject:               defaultCAName(),
		NotBefore:             fx.T0.Add(-48 * time.Hour),
		NotAfter:              fx.T0.Add(48 * time.Hour),
		BasicConstraintsValid: true,
		IsCA:                  true,
		MaxPathLen:            -1,
		KeyUsage:              x509.KeyUsageCertSign | x509.KeyUsageCRLSign,
		SubjectKeyId:          append([]byte(nil), parentSKID...),
	}
}

func describe(a assign) map[string]string {
	m := map[string]string{}
	for _, fa := range a {
		m[fields[fa[0]].name] = fields[fa[0]].alts[fa[1]].label
	}
	return m
}

// enumerate every assignment with at most d non-default fields.
func enumerate(d int) []assign {
	var out []assign
	var rec func(start int, cur assign)
	rec = func(start int, cur assign) {
		out = append(out, append(assign(nil), cur...))
		if len(cur) == d {
			return
		}
		for f := start; f < len(fields); f++ {
			for a := 1; a < len(fields[f].alts); a++ {
				rec(f+1, append(cur, [2]int{f, a}))
			}
		}
	}
	rec(0, nil)
	// smallest templates first, so that the first witness recorded for a signature is a minimal one
	sort.SliceStable(out, func(i, j int) bool { return len(out[i]) < len(out[j]) })
	return out
}

// ------------------------------------------------------------------ parents

type parentInfo struct {
	tmpl  *x509.Certificate // the struct it was created from (also used as "unparsed parent")
	cert  *x509.Certificate // parsed
	name  pkix.Name         // the subject it was given
	skid  []byte
	shape int
}

var parents [][]*parentInfo // [signKind][shape]

var parentSKID = bytesN(20, 0xc0)

func makeParents() error {
	parents = make([][]*parentInfo, len(kinds))
	for k := range kinds {
		for shape := 0; shape < 4; shape++ {
			var n pkix.Name
			if shape == 0 {
				n = defaultCAName()
			} else {
				n = nameShape(shape, "")
			}
			t := &x509.Certificate{
				SerialNumber:          big.NewInt(int64(1000 + 10*k + shape)),
				Subject:               n,
				NotBefore:             fx.T0.Add(-48 * time.Hour),
				NotAfter:              fx.T0.Add(48 * time.Hour),
				BasicConstraintsValid: true,
				IsCA:                  true,
				MaxPathLen:            -1,
				KeyUsage:              x509.KeyUsageCertSign | x509.KeyUsageCRLSign,
				SubjectKeyId:          append([]byte(nil), parentSKID...),
			}
			der, err := x509.CreateCertificate(fx.NewRand(fmt.Sprintf("c04-parent-%d-%d", k, shape)), t, t, signerKeys[k].Public(), signerKeys[k])
			if err != nil {
				return fmt.Errorf("parent %s shape %d: %v", kinds[k].name, shape, err)
			}
			c, err := x509.ParseCertificate(der)
			if err != nil {
				return fmt.Errorf("parent %s shape %d: parse: %v", kinds[k].name, shape, err)
			}
			parents[k] = append(parents[k], &parentInfo{tmpl: t, cert: c, name: n, skid: parentSKID, shape: shape})
		}
	}
	return nil
}

// ------------------------------------------------------------------ driver

type witness struct {
	Probe  string            `json:"probe,omitempty"`     // "" = template enumeration, "eku" = ExtKeyUsage constant probe, "reuse" = reuse history, "name" = name value probe
	Name   *nameCase         `json:"name_case,omitempty"` // probe "name"
	Assign [][2]int          `json:"assign,omitempty"`    // reuse: the base template of the history
	Edits  []int             `json:"edits,omitempty"`     // reuse: indices into the edit alphabet, applied in place between the calls
	EditL  []string          `json:"edit_labels,omitempty"`
	EKU    *int              `json:"eku,omitempty"` // probe "eku": the ExtKeyUsage constant's integer value
	Fields map[string]string `json:"non_default_fields,omitempty"`
	Detail string            `json:"detail"`
	DER    string            `json:"der,omitempty"`
}

type result struct {
	classes []string // outcome classes
	viol    []violation
	created bool     // in-domain, created and parsed by zcrypto: a non-trivial case
	ops     int      // operations executed on the real code
	der     []byte   // the certificate, when one was created inside the domain
	changed bool     // immutability probe, digest tier: a creation call changed its inputs
	mutated []string // immutability probe, path tier: the input paths the creation call changed
}

type violation struct {
	sig    string
	detail string
}

func main() {
	ev.Main("C04", "model_checking", func(c *ev.Ctx) {
		loadKeys()
		loadStdPubs()
		fields = buildFields()
		buildReuseEdits()
		if err := buildNameValues(); err != nil {
			c.Broken("name value alphabet: %v", err)
		}
		if err := makeParents(); err != nil {
			// cannot even mint the CA fixtures: that is a failure of issuance itself
			c.Violation("fixture CA certificate cannot be issued/parsed", witness{Detail: err.Error()})
			return
		}

		report := func(a assign, r *result, probe string, eku int) {
			for _, v := range r.viol {
				w := witness{Probe: probe, Assign: a, Fields: describe(a), Detail: v.detail}
				if probe == "eku" {
					w.EKU = &eku
				}
				c.Violation(v.sig, w)
			}
		}

		if c.Replay != nil {
			var w witness
			if err := json.Unmarshal(c.Replay, &w); err != nil {
				c.Broken("bad witness: %v", err)
			}
			var r *result
			eku := 0
			if w.Probe == "reuse" {
				for _, e := range w.Edits {
					if e < 0 || e >= len(reuseEdits) {
						c.Broken("witness does not fit the edit alphabet")
					}
				}
				for _, fa := range w.Assign {
					if fa[0] < 0 || fa[0] >= len(fields) || fa[1] < 0 || fa[1] >= len(fields[fa[0]].alts) {
						c.Broken("witness does not fit the field table")
					}
				}
				h := rhistory{w.Assign, w.Edits}
				r = runHistory(h, true)
				for _, v := range r.viol {
					c.Violation(v.sig, witness{Probe: "reuse", Assign: w.Assign, Fields: describe(w.Assign), Edits: w.Edits, EditL: h.labels(), Detail: v.detail})
				}
				r.viol = nil
			} else if w.Probe == "name" {
				if w.Name == nil || !w.Name.valid() {
					c.Broken("witness does not fit the name probe tables")
				}
				r = evalName(*w.Name)
				for _, v := range r.viol {
					c.Violation(v.sig, witness{Probe: "name", Name: w.Name.labelled(), Detail: v.detail})
				}
				r.viol = nil
			} else if w.Probe == "eku" {
				if w.EKU != nil {
					eku = *w.EKU
				}
				r = evalEKU(eku)
			} else {
				for _, fa := range w.Assign {
					if fa[0] < 0 || fa[0] >= len(fields) || fa[1] < 0 || fa[1] >= len(fields[fa[0]].alts) {
						c.Broken("witness does not fit the field table")
					}
				}
				r = evaluate(build(w.Assign))
			}
			report(w.Assign, r, w.Probe, eku)
			for _, cl := range r.classes {
				c.Outcome(cl, 1)
			}
			fmt.Printf("replay: classes=%v violations=%d\n", r.classes, len(r.viol))
			c.States.Add(1)
			c.Transitions.Add(int64(r.ops))
			return
		}

		d := ev.Pick(c, 2, 3)
		all := enumerate(d)
		// saturated templates, independent of the bound d: EVERY field non-default at once (the k-th alternative of
		// each field, cyclically, for every k up to the longest alternative list), once over all fields and once
		// leaving the fields that choose keys, algorithm, issuer and caller-supplied extensions at their defaults --
		// the templates that carry the largest number of generated extensions.
		{
			maxAlts := 0
			for _, f := range fields {
				if n := len(f.alts) - 1; n > maxAlts {
					maxAlts = n
				}
			}
			mode := map[string]bool{"SignatureAlgorithm": true, "SignerKey": true, "SubjectKey": true, "ExtraExtensions": true, "Issuer": true}
			nSat := 0
			for _, skipMode := range []bool{true, false} {
				for k := 0; k < maxAlts; k++ {
					var a assign
					for f, fd := range fields {
						if n := len(fd.alts) - 1; n > 0 && !(skipMode && mode[fd.name]) {
							a = append(a, [2]int{f, 1 + k%n})
						}
					}
					all = append(all, a)
					nSat++
				}
			}
			c.Set("saturated_templates", nSat)
		}
		nAlt := 0
		perField := map[string]int{}
		for _, f := range fields {
			nAlt += len(f.alts) - 1
			perField[f.name] = len(f.alts) - 1
		}
		c.Rule(fmt.Sprintf("every certificate template with at most %d of %d fields set to a non-default alternative (%d alternatives in total, full list in coverage.alternatives_per_field) is created by the real CreateCertificate and parsed back; PLUS saturated templates (every field non-default at once: the k-th alternative of each field, cyclically, for every k, over all fields and over all fields but the ones choosing keys/algorithm/issuer/caller-supplied extensions -- the templates with the largest number of generated extensions); PLUS, independent of that bound, the full product signer key kind {Ed25519, RSA-1024, RSA-2048, RSA-3072, P-224, P-256, P-384, P-521} x requested SignatureAlgorithm {0, every constant MD2WithRSA..Ed25519Sig} x {issued by the parsed CA to each of the 8 subject key kinds | self-signed CA certificate} on the default template (every RSA-PSS variant must really be issued by the RSA-2048 and RSA-3072 signers, issued and self-signed); a case is distinct/non-trivial when the template is inside the documented domain and the certificate was created and parsed by zcrypto; plus every exported ExtKeyUsage constant as the only EKU of the default template; PLUS the name value probe (names.go, tables in coverage.name_probe): every value of a rule-built alphabet {per UTF-8 length class 2/3/4 a rune whose low byte (rune&0xff) is a PrintableString character and one whose low byte is not, U+0080, U+00FF, U+0100, U+0120, each alone and between ASCII letters; every PrintableString punctuation character ' ( ) + , - . / : = ? space alone and all in one value; the ASCII characters * & @ _ alone and between letters; three real-world names whose non-ASCII runes all have a printable low byte} x every string-typed pkix.Name field that ToRDNSequence emits (15) and ExtraNames {unknown OID, givenName, surname} x position {subject of an issued certificate, subject+issuer of a self-signed CA, issuer through a parsed parent of that name, issuer through an unparsed parent template, permitted directory-name constraint, excluded directory-name constraint}: created, parsed by zcrypto AND by Go crypto/x509, names compared in both, signature verified; the ASN.1 string type on the wire is recorded per value class; PLUS reuse histories: every base template with at most 1 non-default field x every edit of the alphabet {field := alternative (every field, every alternative incl. back to the default), no edit, 7 edits inside existing values (Subject.CommonName, Subject.Organization append, SerialNumber.SetInt64, DNSNames append, ExtraExtensions append, IsCA toggle, SubjectKeyId bytes), 4 edits of an unparsed parent template (rename x3, SubjectKeyId)} applied IN PLACE to the same template/parent objects between two CreateCertificate calls (thorough: also three calls, first edit from the covering sub-alphabet): the last certificate is judged by the same expectation function applied to freshly built objects holding the edited values, and its TBSCertificate must equal the one issued from such fresh objects; every creation call is bracketed by a deep snapshot of template and parent (changed input paths are outcome classes 'probe: ...')", d, len(fields), nAlt))
		c.Assume("expectation function transcribes the documentation of CreateCertificate, Certificate, pkix.Name and RFC 5280 (oracle.go), not buildExtensions",
			"Go standard library crypto/x509, encoding/asn1, crypto/rsa, crypto/ecdsa, crypto/ed25519 are correct (used as independent parser and verifier)",
			"fixture keys of internal/fx; CA fixtures are minted with the code under test and verified like every other certificate",
			"AuthorityKeyId: the property statement says the template's, the doc comment of CreateCertificate says the parent's SubjectKeyId when issued: both are accepted and counted (outcomes akid=...)",
			"ordering inside list-valued fields and inside a multi-valued RDN is not part of the statement: lists are compared as multisets",
			"a certificate issued from a template inside the documented domain that Go's crypto/x509 refuses to parse is a violation (0 such cases on the unchanged tree): the independent parser is the witness that the certificate is well-formed for parsers other than the one that shares its ASN.1 tables with the issuer",
			"pkix.Name fields GivenName, Surname, CommonNames, SerialNumbers are filled by parsing only (ToRDNSequence does not emit them): givenName and surname are probed through ExtraNames",
			"reuse histories: 'reports the template's fields' is read as the template's fields AT THE TIME OF THE CALL; a creation call that changes its inputs is not a violation by itself (outcome class), only its effect on a later call is",
			"templates may hold slices that share a backing array (two IP ranges sliced from one packed address table): nothing in the documentation asks for exact-capacity slices")
		c.Set("deviation_bound_d", d)
		c.Set("fields", len(fields))
		c.Set("alternatives_total", nAlt)
		c.Set("alternatives_per_field", perField)
		c.Set("templates_enumerated", len(all))
		c.Set("domain_predicate", domainText)

		var mutMu sync.Mutex
		mutatedPaths := map[string]bool{}
		noteMutated := func(r *result) {
			if len(r.mutated) > 0 {
				mutMu.Lock()
				for _, p := range r.mutated {
					mutatedPaths[p] = true
				}
				mutMu.Unlock()
			}
		}
		W := c.Workers()
		hists := make([]ev.Hist, W)
		for i := range hists {
			hists[i] = ev.Hist{}
		}
		done := c.Parallel(len(all), func(w, i int) {
			a := all[i]
			s := build(a)
			r := evaluate(s)
			if r.changed { // digest changed: the same case again, with the path-naming snapshots
				s = build(a)
				r = evaluateAs(s, s, true)
			}
			noteMutated(r)
			for _, cl := range r.classes {
				hists[w][cl]++
			}
			c.States.Add(1)
			c.Evaluations.Add(1)
			c.Transitions.Add(int64(r.ops))
			if r.created {
				c.Distinct.Add(1)
				if len(r.viol) == 0 {
					c.Traces.Add(1)
				}
			}
			if len(r.viol) > 0 {
				report(a, r, "", 0)
			} else if r.created && len(a) == d && i%977 == 0 && c.WantSample() {
				c.Sample(map[string]any{"non_default_fields": describe(a), "outcome": r.classes})
			}
		})
		for i, h := range hists {
			c.Merge(h)
			hists[i] = ev.Hist{}
		}
		if !done {
			c.Incomplete(fmt.Sprintf("budget hit: only %d of %d templates (d<=%d) were evaluated", c.States.Load(), len(all), d))
		}

		// supplementary product, independent of d: signer key kind x requested SignatureAlgorithm x
		// {issued to every subject key kind | self-signed CA}, everything else at its default. The
		// d-bounded enumeration cannot set SignerKey, SignatureAlgorithm and Issuer together.
		fieldIdx := func(name string) int {
			for i, f := range fields {
				if f.name == name {
					return i
				}
			}
			c.Broken("no field %q", name)
			return -1
		}
		altIdx := func(f int, label string) int {
			for i, a := range fields[f].alts {
				if a.label == label {
					return i
				}
			}
			c.Broken("field %s has no alternative %q", fields[f].name, label)
			return -1
		}
		fBC, fAlg, fSubj, fSign, fIss := fieldIdx("BasicConstraints"), fieldIdx("SignatureAlgorithm"), fieldIdx("SubjectKey"), fieldIdx("SignerKey"), fieldIdx("Issuer")
		aCA, aSelf := altIdx(fBC, "valid=true,ca=true,len=-1,zero=false"), altIdx(fIss, "self-signed")
		var prod []assign
		for sign := range kinds {
			for alg := range fields[fAlg].alts {
				mk := func(subj int, self bool) assign {
					var a assign
					put := func(f, alt int) {
						if alt != 0 {
							a = append(a, [2]int{f, alt})
						}
					}
					if self {
						put(fBC, aCA)
					}
					put(fAlg, alg)
					put(fSubj, subj)
					put(fSign, sign)
					if self {
						put(fIss, aSelf)
					}
					sort.Slice(a, func(i, j int) bool { return a[i][0] < a[j][0] })
					return a
				}
				for subj := range kinds {
					prod = append(prod, mk(subj, false))
				}
				prod = append(prod, mk(0, true))
			}
		}
		c.Set("key_algorithm_issuer_product_cases", len(prod))
		issuedAlgs := make([]map[string]bool, len(kinds)) // per signer kind: algorithms actually issued, "self:" prefix for self-signed
		for i := range issuedAlgs {
			issuedAlgs[i] = map[string]bool{}
		}
		var prodMu sync.Mutex
		doneP := c.Parallel(len(prod), func(w, i int) {
			a := prod[i]
			s := build(a)
			r := evaluate(s)
			if r.changed {
				s = build(a)
				r = evaluateAs(s, s, true)
			}
			noteMutated(r)
			for _, cl := range r.classes {
				hists[w]["key x algorithm x issuer product: "+cl]++
			}
			c.States.Add(1)
			c.Evaluations.Add(1)
			c.Transitions.Add(int64(r.ops))
			if r.created {
				c.Distinct.Add(1)
				if len(r.viol) == 0 {
					c.Traces.Add(1)
					lbl := "default"
					if s.t.SignatureAlgorithm != 0 {
						lbl = s.t.SignatureAlgorithm.String()
					}
					if s.self() {
						lbl = "self-signed:" + lbl
					}
					prodMu.Lock()
					issuedAlgs[s.signKind][lbl] = true
					prodMu.Unlock()
				}
			}
			if len(r.viol) > 0 {
				report(a, r, "", 0)
			}
		})
		hp := ev.Hist{}
		for _, h := range hists {
			for k, v := range h {
				if strings.HasPrefix(k, "key x algorithm x issuer product: ") {
					hp[k] += v
				}
			}
		}
		c.Merge(hp)
		for i := range hists {
			hists[i] = ev.Hist{}
		}
		if !doneP {
			c.Incomplete("budget hit during the key x algorithm x issuer product")
		}
		issued := map[string][]string{}
		for k := range kinds {
			for l := range issuedAlgs[k] {
				issued[kinds[k].name] = append(issued[kinds[k].name], l)
			}
			sort.Strings(issued[kinds[k].name])
		}
		c.Set("algorithms_issued_by_signer_kind", issued)
		// non-vacuity of the closed gap: every RSA-PSS variant is really issued, issued and self-signed
		var missing []string
		for _, l := range []string{"SHA256-RSAPSS", "SHA384-RSAPSS", "SHA512-RSAPSS"} {
			for _, k := range []string{"RSA-2048", "RSA-3072"} {
				for _, pre := range []string{"", "self-signed:"} {
					found := false
					for _, have := range issued[k] {
						if have == pre+l {
							found = true
						}
					}
					if !found {
						missing = append(missing, k+" "+pre+l)
					}
				}
			}
		}
		if len(missing) > 0 && doneP {
			c.Violation("an in-domain RSA-PSS certificate was not issued and verified by an RSA>=2048 signer (issued and self-signed, SHA-256/384/512)", witness{Detail: "not issued+verified: " + strings.Join(missing, ", ")})
		}

		// supplementary axis: every exported ExtKeyUsage constant (0 .. ExtKeyUsageAny, iota order)
		nEKU := int(x509.ExtKeyUsageAny) + 1
		c.Set("eku_constants_probed", nEKU)
		var ekuFailing []int
		for v := 0; v < nEKU; v++ {
			r := evalEKU(v)
			if len(r.viol) > 0 {
				ekuFailing = append(ekuFailing, v)
			}
			for _, cl := range r.classes {
				c.Outcome("eku-probe: "+cl, 1)
			}
			c.States.Add(1)
			c.Evaluations.Add(1)
			c.Transitions.Add(int64(r.ops))
			if r.created {
				c.Distinct.Add(1)
				if len(r.viol) == 0 {
					c.Traces.Add(1)
				}
			}
			report(nil, r, "eku", v)
		}
		c.Set("eku_constants_failing", ekuFailing)

		// name value probe (names.go): every string-typed attribute field x value alphabet x position
		runNameProbe(c)

		// reuse histories (reuse.go): the same template/parent objects through several creation calls
		bases := enumerate(1)
		hs := enumerateHistories(bases, 2)
		nLen2 := len(hs)
		if !c.Quick() {
			hs = append(hs, enumerateHistories(bases, 3)...)
		}
		nCover := 0
		var editLabels []string
		for _, e := range reuseEdits {
			if e.covering {
				nCover++
			}
			if e.field < 0 {
				editLabels = append(editLabels, e.label)
			}
		}
		c.Set("reuse_histories", map[string]any{"bases": len(bases), "edit_alphabet": len(reuseEdits), "covering_sub_alphabet": nCover,
			"edits_beyond_the_field_table": editLabels, "length_2": nLen2, "length_3": len(hs) - nLen2})
		doneH := c.Parallel(len(hs), func(w, i int) {
			h := hs[i]
			r := runHistory(h, false)
			if r.changed {
				r = runHistory(h, true)
			}
			for _, cl := range r.classes {
				hists[w][cl]++
			}
			c.States.Add(1)
			c.Evaluations.Add(1)
			c.Transitions.Add(int64(r.ops))
			if r.created {
				c.Distinct.Add(1)
				if len(r.viol) == 0 {
					c.Traces.Add(1)
				}
			}
			noteMutated(r)
			for _, v := range r.viol {
				c.Violation(v.sig, witness{Probe: "reuse", Assign: h.base, Fields: describe(h.base), Edits: h.edits, EditL: h.labels(), Detail: v.detail})
			}
		})
		for i, h := range hists {
			c.Merge(h)
			hists[i] = ev.Hist{}
		}
		if !doneH {
			c.Incomplete("budget hit during the reuse histories")
		}
		var mp []string
		for p := range mutatedPaths {
			mp = append(mp, p)
		}
		sort.Strings(mp)
		c.Set("inputs_changed_by_CreateCertificate", mp)
	})
}

// evalEKU: default template (issued by the default CA) whose only extended key usage is the constant v.
func evalEKU(v int) *result {
	s := build(nil)
	s.t.ExtKeyUsage = []x509.ExtKeyUsage{x509.ExtKeyUsage(v)}
	r := evaluate(s)
	for i := range r.viol {
		// one signature per failure class, not per constant
		r.viol[i].sig = "ExtKeyUsage constant as only EKU: " + r.viol[i].sig
		r.viol[i].detail = fmt.Sprintf("ExtKeyUsage(%d): %s", v, r.viol[i].detail)
	}
	return r
}

func sortedCopy(v []string) []string {
	o := append([]string(nil), v...)
	sort.Strings(o)
	return o
}

func sameMultiset(a, b []string) bool {
	if len(a) != len(b) {
		return false
	}
	x, y := sortedCopy(a), sortedCopy(b)
	for i := range x {
		if x[i] != y[i] {
			return false
		}
	}
	return true
}

func show(v []string) string { return "[" + strings.Join(v, " | ") + "]" }
