// Standalone reproducer (no harness code): CreateCertificate (buildExtensions)
// encodes an IP name constraint with
//
//	ip := append(permitted.Data.IP, permitted.Data.Mask...)
//
// which writes the mask into the spare capacity of the CALLER's IP slice. When
// the template's addresses are slices of one packed buffer (the usual way of
// holding a table of IPv4 addresses: buf[4*i : 4*i+4]), encoding range i
// overwrites the address of range i+1 with the mask of range i before it is
// read: the issued certificate carries another range than the template, and the
// template is left modified.
//
//	cd /verif/mc && GOFLAGS=-mod=mod GOPROXY=off go run ./cmd/c04/repro/nc-ip-packed-buffer
//
// exit 1 = defect present, exit 0 = both ranges round-trip and the buffer is untouched.
package main

import (
	"bytes"
	"crypto/ed25519"
	"fmt"
	"math/big"
	"net"
	"os"
	"time"

	"github.com/zmap/zcrypto/x509"
	"github.com/zmap/zcrypto/x509/pkix"
)

func main() {
	key := ed25519.NewKeyFromSeed(make([]byte, 32))
	table := []byte{10, 0, 0, 0, 192, 168, 0, 0} // two IPv4 network addresses, packed
	orig := append([]byte(nil), table...)
	mask := func() net.IPMask { return net.IPMask{255, 255, 0, 0} }
	t := &x509.Certificate{
		SerialNumber:          big.NewInt(1),
		Subject:               pkix.Name{CommonName: "nc.example"},
		NotBefore:             time.Unix(1700000000, 0),
		NotAfter:              time.Unix(1800000000, 0),
		BasicConstraintsValid: true,
		IsCA:                  true,
		PermittedIPAddresses: []x509.GeneralSubtreeIP{
			{Data: net.IPNet{IP: net.IP(table[0:4]), Mask: mask()}},
			{Data: net.IPNet{IP: net.IP(table[4:8]), Mask: mask()}},
		},
	}
	der, err := x509.CreateCertificate(nil, t, t, key.Public(), key)
	if err != nil {
		panic(err)
	}
	c, err := x509.ParseCertificate(der)
	if err != nil {
		panic(err)
	}
	bad := false
	want := []string{"10.0.0.0/16", "192.168.0.0/16"}
	for i, g := range c.PermittedIPAddresses {
		got := (&net.IPNet{IP: g.Data.IP, Mask: g.Data.Mask}).String()
		fmt.Printf("range %d: template %s -> certificate %s\n", i, want[i], got)
		if got != want[i] {
			bad = true
		}
	}
	if !bytes.Equal(table, orig) {
		fmt.Printf("caller's address table changed: %v -> %v\n", orig, table)
		bad = true
	}
	if bad {
		fmt.Println("DEFECT: the issued certificate does not carry the template's IP name constraints")
		os.Exit(1)
	}
	fmt.Println("ok")
}
