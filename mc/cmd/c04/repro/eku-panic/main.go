// Reproducer for the C04 finding: x509.CreateCertificate panics ("internal
// error") for 52 of the 64 exported ExtKeyUsage constants.
//
//	cd /verif/mc && GOFLAGS=-mod=mod GOPROXY=off go run ./cmd/c04/repro/eku-panic
package main

import (
	"crypto/ed25519"
	"fmt"
	"math/big"
	"time"

	"github.com/zmap/zcrypto/x509"
	"github.com/zmap/zcrypto/x509/pkix"
)

type zero struct{}

func (zero) Read(p []byte) (int, error) {
	for i := range p {
		p[i] = 0
	}
	return len(p), nil
}

func try(eku x509.ExtKeyUsage, priv ed25519.PrivateKey) (res string) {
	defer func() {
		if r := recover(); r != nil {
			res = fmt.Sprint("PANIC: ", r)
		}
	}()
	t := &x509.Certificate{
		SerialNumber: big.NewInt(1),
		Subject:      pkix.Name{CommonName: "leaf.example"},
		NotBefore:    time.Date(2026, 1, 1, 0, 0, 0, 0, time.UTC),
		NotAfter:     time.Date(2027, 1, 1, 0, 0, 0, 0, time.UTC),
		ExtKeyUsage:  []x509.ExtKeyUsage{eku},
	}
	der, err := x509.CreateCertificate(zero{}, t, t, priv.Public(), priv)
	if err != nil {
		return "error: " + err.Error()
	}
	c, err := x509.ParseCertificate(der)
	if err != nil {
		return "parse error: " + err.Error()
	}
	return fmt.Sprint("ok, parsed ExtKeyUsage=", c.ExtKeyUsage)
}

func main() {
	priv := ed25519.NewKeyFromSeed(make([]byte, 32))
	for _, c := range []struct {
		name string
		v    x509.ExtKeyUsage
	}{
		{"ExtKeyUsageServerAuth", x509.ExtKeyUsageServerAuth},
		{"ExtKeyUsageMicrosoftDocumentSigning", x509.ExtKeyUsageMicrosoftDocumentSigning},
		{"ExtKeyUsageAppleCodeSigning", x509.ExtKeyUsageAppleCodeSigning},
		{"ExtKeyUsageDvcs", x509.ExtKeyUsageDvcs},
	} {
		fmt.Printf("%-40s %s\n", c.name, try(c.v, priv))
	}
	n := 0
	for v := x509.ExtKeyUsage(0); v <= x509.ExtKeyUsageAny; v++ {
		if r := try(v, priv); len(r) > 5 && r[:5] == "PANIC" {
			n++
		}
	}
	fmt.Printf("%d of %d exported ExtKeyUsage constants make CreateCertificate panic\n", n, int(x509.ExtKeyUsageAny)+1)

	// the round trip that hits it in practice: parse a certificate that carries such a usage, re-issue it
	t := &x509.Certificate{
		SerialNumber:       big.NewInt(2),
		Subject:            pkix.Name{CommonName: "leaf.example"},
		NotBefore:          time.Date(2026, 1, 1, 0, 0, 0, 0, time.UTC),
		NotAfter:           time.Date(2027, 1, 1, 0, 0, 0, 0, time.UTC),
		UnknownExtKeyUsage: nil,
	}
	t.UnknownExtKeyUsage = append(t.UnknownExtKeyUsage, []int{1, 3, 6, 1, 4, 1, 311, 10, 3, 12}) // MS document signing
	der, err := x509.CreateCertificate(zero{}, t, t, priv.Public(), priv)
	if err != nil {
		panic(err)
	}
	parsed, err := x509.ParseCertificate(der)
	if err != nil {
		panic(err)
	}
	fmt.Println("parsed certificate reports ExtKeyUsage =", parsed.ExtKeyUsage, "UnknownExtKeyUsage =", parsed.UnknownExtKeyUsage)
	func() {
		defer func() { fmt.Println("re-issuing the parsed certificate as template:", recover()) }()
		parsed.SerialNumber = big.NewInt(3)
		_, err := x509.CreateCertificate(zero{}, parsed, parsed, priv.Public(), priv)
		fmt.Println("no panic, err =", err)
	}()
}
