package main

// The reference side of C04: the documented-domain predicate, the expectation
// function, the comparison with zcrypto's and the standard library's parse of
// the issued certificate, and the independent signature verification.
//
// Sources (nothing here is derived from x509.buildExtensions):
//   - doc comment of x509.CreateCertificate, field comments of x509.Certificate
//     (KeyUsage, ExtKeyUsage, BasicConstraintsValid/IsCA/MaxPathLen/MaxPathLenZero,
//     ExtraExtensions "Values override any extensions that would otherwise be
//     produced based on the other fields"), doc of pkix.Name / ToRDNSequence;
//   - RFC 5280 §4.1.2.5 (validity in UTC, whole seconds), §4.2 ("A certificate
//     MUST NOT include more than one instance of a particular extension"),
//     §4.2.1.3 (key usage bit numbers), §4.2.1.6 (iPAddress: 4 octets for IPv4,
//     16 for IPv6; rfc822Name/dNSName/URI are IA5String), §4.2.1.9, §4.2.1.10
//     (iPAddress constraint: address and mask of equal length, 8 or 32 octets),
//     §4.2.1.12 (EKU OIDs);
//   - X.520 / RFC 4519 / PKCS#9 attribute OIDs.

import (
	"bytes"
	"crypto"
	"crypto/ecdsa"
	"crypto/ed25519"
	_ "crypto/md5"
	stdrsa "crypto/rsa"
	_ "crypto/sha1"
	_ "crypto/sha256"
	_ "crypto/sha512"
	stdx509 "crypto/x509"
	stdpkix "crypto/x509/pkix"
	stdasn1 "encoding/asn1"
	"encoding/hex"
	"fmt"
	"math/big"
	"net"
	"sort"
	"strings"
	"sync"
	"time"
	"unicode/utf8"

	zrsa "github.com/zmap/zcrypto/rsa"
	"github.com/zmap/zcrypto/x509"
	"github.com/zmap/zcrypto/x509/pkix"
	"verifmc/internal/ev"
	"verifmc/internal/fx"
)

const domainText = "documented domain := SerialNumber non-nil and positive; every DN attribute value (subject, issuer, directory-name constraints) is valid UTF-8; DNSNames, EmailAddresses, OCSPServer, IssuingCertificateURL, CRLDistributionPoints and DNS/e-mail name constraints are IA5 (bytes < 0x80); every IPAddresses entry has 4 or 16 bytes; every IP name constraint has len(IP) == len(Mask) in {4,16}; NotBefore/NotAfter have a UTC year in 0..9999; MaxPathLen >= -1; every ExtKeyUsage element is an exported ExtKeyUsage constant; ExtraExtensions carry no OID twice; subject and signer keys are RSA, ECDSA P-224/256/384/521 or Ed25519; SignatureAlgorithm is 0 or an algorithm of the signer's key family that can be computed (RSA: MD5/SHA1/SHA256/SHA384/SHA512 PKCS#1 v1.5, RSA-PSS with 2*hashLen+2 <= modulus bytes; ECDSA: ECDSAWithSHA1/256/384/512; Ed25519: Ed25519Sig)"

// ------------------------------------------------------------------ signature algorithms

type algInfo struct {
	family string // "rsa", "rsapss", "ecdsa", "ed25519", "" = cannot be produced (MD2, DSA)
	hash   crypto.Hash
	std    stdx509.SignatureAlgorithm
}

// keyed by the constant's documented name
var algs = map[x509.SignatureAlgorithm]algInfo{
	x509.MD2WithRSA:       {"", 0, stdx509.MD2WithRSA},
	x509.MD5WithRSA:       {"rsa", crypto.MD5, stdx509.MD5WithRSA},
	x509.SHA1WithRSA:      {"rsa", crypto.SHA1, stdx509.SHA1WithRSA},
	x509.SHA256WithRSA:    {"rsa", crypto.SHA256, stdx509.SHA256WithRSA},
	x509.SHA384WithRSA:    {"rsa", crypto.SHA384, stdx509.SHA384WithRSA},
	x509.SHA512WithRSA:    {"rsa", crypto.SHA512, stdx509.SHA512WithRSA},
	x509.DSAWithSHA1:      {"", 0, stdx509.DSAWithSHA1},
	x509.DSAWithSHA256:    {"", 0, stdx509.DSAWithSHA256},
	x509.ECDSAWithSHA1:    {"ecdsa", crypto.SHA1, stdx509.ECDSAWithSHA1},
	x509.ECDSAWithSHA256:  {"ecdsa", crypto.SHA256, stdx509.ECDSAWithSHA256},
	x509.ECDSAWithSHA384:  {"ecdsa", crypto.SHA384, stdx509.ECDSAWithSHA384},
	x509.ECDSAWithSHA512:  {"ecdsa", crypto.SHA512, stdx509.ECDSAWithSHA512},
	x509.SHA256WithRSAPSS: {"rsapss", crypto.SHA256, stdx509.SHA256WithRSAPSS},
	x509.SHA384WithRSAPSS: {"rsapss", crypto.SHA384, stdx509.SHA384WithRSAPSS},
	x509.SHA512WithRSAPSS: {"rsapss", crypto.SHA512, stdx509.SHA512WithRSAPSS},
	x509.Ed25519Sig:       {"ed25519", 0, stdx509.PureEd25519},
}

func kindFamily(k int) string {
	switch kinds[k].name {
	case "Ed25519":
		return "ed25519"
	}
	if strings.HasPrefix(kinds[k].name, "RSA-") {
		return "rsa"
	}
	return "ecdsa"
}

// standard-library views of the fixture public keys, built once (loadStdPubs).
var (
	stdSignerPubs  []crypto.PublicKey
	stdSubjectPubs []crypto.PublicKey
	rsaModBytes    []int // by kind: octet length of the signer's modulus (0 for non-RSA kinds)
)

func loadStdPubs() {
	one := func(k int, name string) crypto.PublicKey {
		switch kindFamily(k) {
		case "rsa":
			return &fx.StdRSA(name).PublicKey
		case "ecdsa":
			return &fx.EC(name).PublicKey
		}
		return fx.Ed(name).Public()
	}
	for k := range kinds {
		stdSignerPubs = append(stdSignerPubs, one(k, kinds[k].signer))
		stdSubjectPubs = append(stdSubjectPubs, one(k, kinds[k].subject))
		n := 0
		if p, ok := stdSignerPubs[k].(*stdrsa.PublicKey); ok {
			n = (p.N.BitLen() - 1 + 7) / 8
		}
		rsaModBytes = append(rsaModBytes, n)
	}
}

// stdPub returns the signer's public key of a kind as a standard-library type, from the fixtures.
func stdPub(k int) crypto.PublicKey { return stdSignerPubs[k] }

func stdSubjectPub(s *scenario) crypto.PublicKey {
	if s.self() {
		return stdSignerPubs[s.signKind]
	}
	return stdSubjectPubs[s.subjKind]
}

// ------------------------------------------------------------------ domain predicate

func ia5(s string) bool {
	for i := 0; i < len(s); i++ {
		if s[i] >= 0x80 {
			return false
		}
	}
	return true
}

func nameUTF8(n pkix.Name) bool {
	for _, l := range [][]string{n.Country, n.Organization, n.OrganizationalUnit, n.Locality, n.Province, n.StreetAddress,
		n.PostalCode, n.DomainComponent, n.EmailAddress, {n.SerialNumber, n.CommonName},
		n.JurisdictionLocality, n.JurisdictionProvince, n.JurisdictionCountry, n.OrganizationIDs} {
		for _, v := range l {
			if !utf8.ValidString(v) {
				return false
			}
		}
	}
	for _, a := range n.ExtraNames {
		if v, ok := a.Value.(string); !ok || !utf8.ValidString(v) {
			return false
		}
	}
	return true
}

// inDomain is the documented-domain predicate (domainText). The reason is a class, not a value.
func inDomain(s *scenario, issuerName pkix.Name) (bool, string) {
	t := s.t
	if t.SerialNumber == nil || t.SerialNumber.Sign() <= 0 {
		return false, "serial number missing or not positive"
	}
	if !nameUTF8(t.Subject) || !nameUTF8(issuerName) {
		return false, "DN value not UTF-8"
	}
	for _, l := range [][]string{t.DNSNames, t.EmailAddresses, t.OCSPServer, t.IssuingCertificateURL, t.CRLDistributionPoints} {
		for _, v := range l {
			if !ia5(v) {
				return false, "non-IA5 name"
			}
		}
	}
	for _, l := range [][]x509.GeneralSubtreeString{t.PermittedDNSNames, t.ExcludedDNSNames, t.PermittedEmailAddresses, t.ExcludedEmailAddresses} {
		for _, v := range l {
			if !ia5(v.Data) {
				return false, "non-IA5 name constraint"
			}
		}
	}
	for _, l := range [][]x509.GeneralSubtreeName{t.PermittedDirectoryNames, t.ExcludedDirectoryNames} {
		for _, v := range l {
			if !nameUTF8(v.Data) {
				return false, "DN value not UTF-8"
			}
		}
	}
	for _, ip := range t.IPAddresses {
		if len(ip) != 4 && len(ip) != 16 {
			return false, "IP address length"
		}
	}
	for _, l := range [][]x509.GeneralSubtreeIP{t.PermittedIPAddresses, t.ExcludedIPAddresses} {
		for _, v := range l {
			if len(v.Data.IP) != len(v.Data.Mask) || (len(v.Data.IP) != 4 && len(v.Data.IP) != 16) {
				return false, "IP name constraint with inconsistent address/mask length"
			}
		}
	}
	for _, tm := range []time.Time{t.NotBefore, t.NotAfter} {
		if y := tm.UTC().Year(); y < 0 || y > 9999 {
			return false, "validity year not representable"
		}
	}
	if t.MaxPathLen < -1 {
		return false, "MaxPathLen < -1"
	}
	for _, u := range t.ExtKeyUsage {
		if u < 0 || u > x509.ExtKeyUsageAny { // the exported constants are 0..ExtKeyUsageAny (iota)
			return false, "ExtKeyUsage value is not an exported constant"
		}
	}
	seen := map[string]bool{}
	for _, e := range t.ExtraExtensions {
		if seen[e.Id.String()] {
			return false, "ExtraExtensions repeat an OID"
		}
		seen[e.Id.String()] = true
	}
	if a := t.SignatureAlgorithm; a != 0 {
		info, ok := algs[a]
		if !ok || info.family == "" {
			return false, "signature algorithm cannot be produced"
		}
		fam := kindFamily(s.signKind)
		switch {
		case fam == "rsa" && (info.family == "rsa" || info.family == "rsapss"):
			if info.family == "rsapss" {
				if 2*info.hash.Size()+2 > rsaModBytes[s.signKind] {
					return false, "RSA-PSS hash+salt exceed the RSA modulus"
				}
			}
		case fam == info.family:
		default:
			return false, "signature algorithm of another key family than the signer"
		}
	}
	return true, ""
}

// ------------------------------------------------------------------ expectation

type atv struct{ oid, val string }

func (a atv) String() string { return a.oid + "=" + a.val }

// X.520 / RFC 4519 / PKCS#9 attribute type OIDs
const (
	oidCN     = "2.5.4.3"
	oidSerial = "2.5.4.5"
	oidC      = "2.5.4.6"
	oidL      = "2.5.4.7"
	oidST     = "2.5.4.8"
	oidStreet = "2.5.4.9"
	oidO      = "2.5.4.10"
	oidOU     = "2.5.4.11"
	oidPostal = "2.5.4.17"
	oidDC     = "0.9.2342.19200300.100.1.25"
	oidEmail  = "1.2.840.113549.1.9.1"
	// attributes of the zcrypto fork's pkix.Name: CA/Browser Forum EV guidelines §9.2.4 (jurisdiction of
	// incorporation), ETSI EN 319 412-1 / X.520 organizationIdentifier, X.520 surname and givenName
	oidJurL    = "1.3.6.1.4.1.311.60.2.1.1"
	oidJurST   = "1.3.6.1.4.1.311.60.2.1.2"
	oidJurC    = "1.3.6.1.4.1.311.60.2.1.3"
	oidOrgID   = "2.5.4.97"
	oidSurname = "2.5.4.4"
	oidGiven   = "2.5.4.42"
)

// expectName: the attributes a DN built from n carries (documentation of pkix.Name).
func expectName(n pkix.Name) []atv {
	var out []atv
	add := func(o string, vs ...string) {
		for _, v := range vs {
			out = append(out, atv{o, v})
		}
	}
	if n.CommonName != "" {
		add(oidCN, n.CommonName)
	}
	if n.SerialNumber != "" {
		add(oidSerial, n.SerialNumber)
	}
	add(oidC, n.Country...)
	add(oidO, n.Organization...)
	add(oidOU, n.OrganizationalUnit...)
	add(oidL, n.Locality...)
	add(oidST, n.Province...)
	add(oidStreet, n.StreetAddress...)
	add(oidPostal, n.PostalCode...)
	add(oidDC, n.DomainComponent...)
	add(oidEmail, n.EmailAddress...)
	add(oidJurL, n.JurisdictionLocality...)
	add(oidJurST, n.JurisdictionProvince...)
	add(oidJurC, n.JurisdictionCountry...)
	add(oidOrgID, n.OrganizationIDs...)
	for _, e := range n.ExtraNames {
		add(e.Type.String(), fmt.Sprint(e.Value))
	}
	return out
}

type ekuExp struct {
	z        x509.ExtKeyUsage
	std      stdx509.ExtKeyUsage
	stdKnown bool // the standard library has a constant for it (RFC 5280 §4.2.1.12 OIDs)
}

// RFC 5280 §4.2.1.12
var ekuTable = []struct {
	z   x509.ExtKeyUsage
	std stdx509.ExtKeyUsage
}{
	{x509.ExtKeyUsageAny, stdx509.ExtKeyUsageAny},
	{x509.ExtKeyUsageServerAuth, stdx509.ExtKeyUsageServerAuth},
	{x509.ExtKeyUsageClientAuth, stdx509.ExtKeyUsageClientAuth},
	{x509.ExtKeyUsageCodeSigning, stdx509.ExtKeyUsageCodeSigning},
	{x509.ExtKeyUsageEmailProtection, stdx509.ExtKeyUsageEmailProtection},
	{x509.ExtKeyUsageTimeStamping, stdx509.ExtKeyUsageTimeStamping},
	{x509.ExtKeyUsageOcspSigning, stdx509.ExtKeyUsageOCSPSigning},
}

func ekuOf(z x509.ExtKeyUsage) ekuExp {
	for _, e := range ekuTable {
		if e.z == z {
			return ekuExp{z, e.std, true}
		}
	}
	return ekuExp{z: z}
}

type extExp struct {
	oid      string
	critical bool
	value    []byte
}

type expected struct {
	serial              *big.Int
	subject, issuer     []atv
	notBefore, notAfter time.Time
	keyUsage            int // bit i = RFC 5280 KeyUsage bit i
	eku                 []ekuExp
	unknownEKU          []string
	bcValid, isCA       bool
	pathLen             int // -1 = no pathLenConstraint
	skid                []byte
	akid                [][]byte // acceptable values (see Assume); [0] = the template's
	dns, emails         []string
	ips                 []string // hex
	ocsp, caIssuers     []string
	crldp               []string
	policies            []string
	ncPresent           bool
	ncCritical          bool
	permDNS, exclDNS    []string
	permEmail, exclMail []string
	permDir, exclDir    [][]atv
	permIP, exclIP      []string // hex(ip)/hex(mask)
	extras              []extExp
	sigAlg              x509.SignatureAlgorithm // 0 = any algorithm of the signer's key family
	signKind            int
	pub                 crypto.PublicKey
}

func hexIP(ip net.IP) string {
	// RFC 5280 §4.2.1.6: an IPv4 address is 4 octets. The 16-byte form of an IPv4
	// address is the IPv4-mapped form ::ffff:a.b.c.d (net.IP convention).
	if len(ip) == 16 {
		mapped := true
		for i := 0; i < 10; i++ {
			if ip[i] != 0 {
				mapped = false
			}
		}
		if mapped && ip[10] == 0xff && ip[11] == 0xff {
			return hex.EncodeToString(ip[12:16])
		}
	}
	return hex.EncodeToString(ip)
}

func subtreeData(l []x509.GeneralSubtreeString) []string {
	var out []string
	for _, v := range l {
		out = append(out, v.Data)
	}
	return out
}

func ipnetHex(l []x509.GeneralSubtreeIP) []string {
	var out []string
	for _, v := range l {
		out = append(out, hex.EncodeToString(v.Data.IP)+"/"+hex.EncodeToString(v.Data.Mask))
	}
	return out
}

func oidStrings[T fmt.Stringer](l []T) []string {
	var out []string
	for _, o := range l {
		out = append(out, o.String())
	}
	return out
}

// expect is the expectation function: what a parser must report for the
// certificate issued from s.t by the given issuer.
func expect(s *scenario, issuerName pkix.Name, parentSKID []byte) *expected {
	t := s.t
	e := &expected{
		serial:    new(big.Int).Set(t.SerialNumber),
		subject:   expectName(t.Subject),
		issuer:    expectName(issuerName),
		notBefore: t.NotBefore.UTC().Truncate(time.Second),
		notAfter:  t.NotAfter.UTC().Truncate(time.Second),
		keyUsage:  int(t.KeyUsage) & 0x1ff,
		pathLen:   -1,
		signKind:  s.signKind,
		sigAlg:    t.SignatureAlgorithm,
		pub:       stdSubjectPub(s),
	}
	for _, u := range t.ExtKeyUsage {
		e.eku = append(e.eku, ekuOf(u))
	}
	e.unknownEKU = oidStrings(t.UnknownExtKeyUsage)
	// BasicConstraintsValid: "if true then the next two fields are valid".
	if t.BasicConstraintsValid {
		e.bcValid = true
		e.isCA = t.IsCA
		// "an unset pathLenConstraint can be requested with either MaxPathLen == -1 or using the zero
		// value for both MaxPathLen and MaxPathLenZero"; MaxPathLenZero: "MaxPathLen==0 should be
		// interpreted as an actual Max path length of zero".
		switch {
		case t.MaxPathLen > 0:
			e.pathLen = t.MaxPathLen
		case t.MaxPathLen == 0 && t.MaxPathLenZero:
			e.pathLen = 0
		}
	}
	// (byte values are copied: the expectation is taken BEFORE the creation call and must not follow
	// anything the call might write into the template)
	e.skid = cloneBytes(t.SubjectKeyId)
	e.akid = [][]byte{cloneBytes(t.AuthorityKeyId)}
	parentSKID = cloneBytes(parentSKID)
	if !s.self() && len(parentSKID) > 0 {
		// doc comment of CreateCertificate: "The AuthorityKeyId will be taken from the SubjectKeyId of
		// parent, if any, unless the resulting certificate is self-signed."
		e.akid = append(e.akid, parentSKID)
	}
	e.dns = cloneStrs(t.DNSNames)
	e.emails = cloneStrs(t.EmailAddresses)
	for _, ip := range t.IPAddresses {
		e.ips = append(e.ips, hexIP(ip))
	}
	e.ocsp = cloneStrs(t.OCSPServer)
	e.caIssuers = cloneStrs(t.IssuingCertificateURL)
	e.crldp = cloneStrs(t.CRLDistributionPoints)
	e.policies = oidStrings(t.PolicyIdentifiers)

	e.permDNS, e.exclDNS = subtreeData(t.PermittedDNSNames), subtreeData(t.ExcludedDNSNames)
	e.permEmail, e.exclMail = subtreeData(t.PermittedEmailAddresses), subtreeData(t.ExcludedEmailAddresses)
	for _, d := range t.PermittedDirectoryNames {
		e.permDir = append(e.permDir, expectName(d.Data))
	}
	for _, d := range t.ExcludedDirectoryNames {
		e.exclDir = append(e.exclDir, expectName(d.Data))
	}
	e.permIP, e.exclIP = ipnetHex(t.PermittedIPAddresses), ipnetHex(t.ExcludedIPAddresses)
	e.ncPresent = len(e.permDNS)+len(e.exclDNS)+len(e.permEmail)+len(e.exclMail)+len(e.permDir)+len(e.exclDir)+len(e.permIP)+len(e.exclIP) > 0
	e.ncCritical = e.ncPresent && t.NameConstraintsCritical

	// "ExtraExtensions contains extensions to be copied, raw, into any marshaled certificates. Values
	// override any extensions that would otherwise be produced based on the other fields."
	for _, x := range t.ExtraExtensions {
		e.extras = append(e.extras, extExp{x.Id.String(), x.Critical, cloneBytes(x.Value)})
		for i := range overrides {
			if overrides[i].oidString() == x.Id.String() && bytes.Equal(overrides[i].value, x.Value) {
				overrides[i].patch(e)
			}
		}
	}
	return e
}

func cloneBytes(b []byte) []byte {
	if b == nil {
		return nil
	}
	return append([]byte{}, b...)
}

func cloneStrs(v []string) []string {
	if v == nil {
		return nil
	}
	return append([]string{}, v...)
}

// ------------------------------------------------------------------ override extensions
//
// One well-formed extension per extension CreateCertificate can generate, with
// content different from anything the field alternatives produce. Encoded with
// the standard encoding/asn1; patch says what a parser must then report.

type override struct {
	name     string
	oid      []int
	critical bool
	value    []byte
	patch    func(e *expected)
}

func (o *override) oidString() string {
	p := make([]string, len(o.oid))
	for i, v := range o.oid {
		p[i] = fmt.Sprint(v)
	}
	return strings.Join(p, ".")
}

func must(b []byte, err error) []byte {
	if err != nil {
		panic(err)
	}
	return b
}

func ctx(tag int, compound bool, body []byte) stdasn1.RawValue {
	return stdasn1.RawValue{Class: 2, Tag: tag, IsCompound: compound, Bytes: body}
}

func rv(v stdasn1.RawValue) []byte { return must(stdasn1.Marshal(v)) }

func seq(body ...[]byte) []byte {
	return must(stdasn1.Marshal(stdasn1.RawValue{Class: 0, Tag: 16, IsCompound: true, Bytes: bytes.Join(body, nil)}))
}

var overrides = []override{
	{"KeyUsage", []int{2, 5, 29, 15}, true,
		// keyCertSign(5) | cRLSign(6)
		must(stdasn1.Marshal(stdasn1.BitString{Bytes: []byte{0x06}, BitLength: 7})),
		func(e *expected) { e.keyUsage = 1<<5 | 1<<6 }},
	{"ExtKeyUsage", []int{2, 5, 29, 37}, false,
		must(stdasn1.Marshal([]stdasn1.ObjectIdentifier{{1, 3, 6, 1, 5, 5, 7, 3, 4}})), // id-kp-emailProtection
		func(e *expected) { e.eku = []ekuExp{ekuOf(x509.ExtKeyUsageEmailProtection)}; e.unknownEKU = nil }},
	{"BasicConstraints", []int{2, 5, 29, 19}, true,
		must(stdasn1.Marshal(struct {
			CA  bool
			Len int
		}{true, 3})),
		func(e *expected) { e.bcValid, e.isCA, e.pathLen = true, true, 3 }},
	{"SubjectKeyId", []int{2, 5, 29, 14}, false,
		must(stdasn1.Marshal([]byte{0xaa, 0xbb, 0xcc})),
		func(e *expected) { e.skid = []byte{0xaa, 0xbb, 0xcc} }},
	{"AuthorityKeyId", []int{2, 5, 29, 35}, false,
		seq(must(stdasn1.Marshal(ctx(0, false, []byte{0xdd, 0xee})))),
		func(e *expected) { e.akid = [][]byte{{0xdd, 0xee}} }},
	{"AuthorityInfoAccess", []int{1, 3, 6, 1, 5, 5, 7, 1, 1}, false,
		seq(seq(must(stdasn1.Marshal(stdasn1.ObjectIdentifier{1, 3, 6, 1, 5, 5, 7, 48, 1})), // id-ad-ocsp
			must(stdasn1.Marshal(ctx(6, false, []byte("http://ocsp.override/")))))),
		func(e *expected) { e.ocsp, e.caIssuers = []string{"http://ocsp.override/"}, nil }},
	{"SubjectAltName", []int{2, 5, 29, 17}, false,
		seq(must(stdasn1.Marshal(ctx(2, false, []byte("override.example"))))),
		func(e *expected) { e.dns, e.emails, e.ips = []string{"override.example"}, nil, nil }},
	{"CertificatePolicies", []int{2, 5, 29, 32}, false,
		seq(seq(must(stdasn1.Marshal(stdasn1.ObjectIdentifier{1, 3, 9, 9})))),
		func(e *expected) { e.policies = []string{"1.3.9.9"} }},
	{"NameConstraints", []int{2, 5, 29, 30}, false,
		seq(rv(ctx(0, true, seq(rv(ctx(2, false, []byte("override.test"))))))),
		func(e *expected) {
			e.ncPresent, e.ncCritical = true, false
			e.permDNS, e.exclDNS, e.permEmail, e.exclMail = []string{"override.test"}, nil, nil, nil
			e.permDir, e.exclDir, e.permIP, e.exclIP = nil, nil, nil, nil
		}},
	{"CRLDistributionPoints", []int{2, 5, 29, 31}, false,
		seq(seq(rv(ctx(0, true, rv(ctx(0, true, rv(ctx(6, false, []byte("http://crl.override/x.crl"))))))))),
		func(e *expected) { e.crldp = []string{"http://crl.override/x.crl"} }},
}

// ------------------------------------------------------------------ comparison

type diffs struct {
	who string
	v   []violation
}

func (d *diffs) add(fieldName, want, got string) {
	d.v = append(d.v, violation{
		sig:    fmt.Sprintf("%s reports a different %s than the template", d.who, fieldName),
		detail: fmt.Sprintf("%s %s: want %s got %s", d.who, fieldName, want, got),
	})
}

func (d *diffs) strs(fieldName string, want, got []string) {
	if !sameMultiset(want, got) {
		d.add(fieldName, show(want), show(got))
	}
}

func (d *diffs) bytesEq(fieldName string, want, got []byte) {
	if !bytes.Equal(want, got) { // nil and empty are the same key identifier
		d.add(fieldName, hex.EncodeToString(want), hex.EncodeToString(got))
	}
}

func atvStrings(l []atv) []string {
	var out []string
	for _, a := range l {
		out = append(out, a.String())
	}
	return out
}

func valuesOf(l []atv, oid string) []string {
	var out []string
	for _, a := range l {
		if a.oid == oid {
			out = append(out, a.val)
		}
	}
	return out
}

func lastOf(l []string) string {
	if len(l) == 0 {
		return ""
	}
	return l[len(l)-1]
}

func single(want []string, got string) bool {
	if len(want) == 0 {
		return got == ""
	}
	for _, w := range want { // several values are outside the alphabets; any of them is acceptable
		if w == got {
			return true
		}
	}
	return false
}

func zNameAttrs(n pkix.Name) []string {
	var out []string
	for _, a := range n.Names {
		out = append(out, atv{a.Type.String(), fmt.Sprint(a.Value)}.String())
	}
	return out
}

func (d *diffs) zName(fieldName string, want []atv, got pkix.Name) {
	if !sameMultiset(atvStrings(want), zNameAttrs(got)) {
		d.add(fieldName+" (attribute list)", show(atvStrings(want)), show(zNameAttrs(got)))
		return
	}
	for _, f := range []struct {
		n, oid string
		got    []string
	}{
		{"Country", oidC, got.Country}, {"Organization", oidO, got.Organization},
		{"OrganizationalUnit", oidOU, got.OrganizationalUnit}, {"Locality", oidL, got.Locality},
		{"Province", oidST, got.Province}, {"StreetAddress", oidStreet, got.StreetAddress},
		{"PostalCode", oidPostal, got.PostalCode}, {"DomainComponent", oidDC, got.DomainComponent},
		{"EmailAddress", oidEmail, got.EmailAddress},
		{"JurisdictionLocality", oidJurL, got.JurisdictionLocality}, {"JurisdictionProvince", oidJurST, got.JurisdictionProvince},
		{"JurisdictionCountry", oidJurC, got.JurisdictionCountry}, {"OrganizationIDs", oidOrgID, got.OrganizationIDs},
		{"GivenName", oidGiven, got.GivenName}, {"Surname", oidSurname, got.Surname},
	} {
		if !sameMultiset(valuesOf(want, f.oid), f.got) {
			d.add(fieldName+"."+f.n, show(valuesOf(want, f.oid)), show(f.got))
		}
	}
	if !single(valuesOf(want, oidCN), got.CommonName) {
		d.add(fieldName+".CommonName", show(valuesOf(want, oidCN)), got.CommonName)
	}
	if !single(valuesOf(want, oidSerial), got.SerialNumber) {
		d.add(fieldName+".SerialNumber", show(valuesOf(want, oidSerial)), got.SerialNumber)
	}
}

func stdNameAttrs(n stdpkix.Name) []string {
	var out []string
	for _, a := range n.Names {
		out = append(out, atv{a.Type.String(), fmt.Sprint(a.Value)}.String())
	}
	return out
}

func (d *diffs) stdName(fieldName string, want []atv, got stdpkix.Name) {
	if !sameMultiset(atvStrings(want), stdNameAttrs(got)) {
		d.add(fieldName+" (attribute list)", show(atvStrings(want)), show(stdNameAttrs(got)))
		return
	}
	for _, f := range []struct {
		n, oid string
		got    []string
	}{
		{"Country", oidC, got.Country}, {"Organization", oidO, got.Organization},
		{"OrganizationalUnit", oidOU, got.OrganizationalUnit}, {"Locality", oidL, got.Locality},
		{"Province", oidST, got.Province}, {"StreetAddress", oidStreet, got.StreetAddress},
		{"PostalCode", oidPostal, got.PostalCode},
	} {
		if !sameMultiset(valuesOf(want, f.oid), f.got) {
			d.add(fieldName+"."+f.n, show(valuesOf(want, f.oid)), show(f.got))
		}
	}
	if !single(valuesOf(want, oidCN), got.CommonName) {
		d.add(fieldName+".CommonName", show(valuesOf(want, oidCN)), got.CommonName)
	}
	if !single(valuesOf(want, oidSerial), got.SerialNumber) {
		d.add(fieldName+".SerialNumber", show(valuesOf(want, oidSerial)), got.SerialNumber)
	}
}

func (d *diffs) timeEq(fieldName string, want, got time.Time) {
	_, off := got.Zone()
	if !got.Equal(want) || off != 0 || got.Nanosecond() != 0 {
		d.add(fieldName, want.Format(time.RFC3339Nano), got.Format(time.RFC3339Nano))
	}
}

// pathLenOf decodes (MaxPathLen, MaxPathLenZero) as documented on the Certificate type:
// "a positive non-zero MaxPathLen means that the field was specified, -1 means it was unset, and
// MaxPathLenZero being true mean that the field was explicitly set to zero. The case of
// MaxPathLen==0 with MaxPathLenZero==false should be treated equivalent to -1 (unset)."
func pathLenOf(maxPathLen int, zero bool) (int, bool) {
	switch {
	case maxPathLen > 0:
		return maxPathLen, true
	case maxPathLen == 0 && zero:
		return 0, true
	case maxPathLen == 0 || maxPathLen == -1:
		return -1, true
	}
	return 0, false
}

func (d *diffs) basic(e *expected, valid, isCA bool, maxPathLen int, zero bool) {
	if valid != e.bcValid {
		d.add("BasicConstraintsValid", fmt.Sprint(e.bcValid), fmt.Sprint(valid))
		return
	}
	if !valid {
		return
	}
	if isCA != e.isCA {
		d.add("IsCA", fmt.Sprint(e.isCA), fmt.Sprint(isCA))
	}
	pl, ok := pathLenOf(maxPathLen, zero)
	if !ok || pl != e.pathLen {
		d.add("path length (MaxPathLen/MaxPathLenZero)", fmt.Sprintf("pathLen=%d (-1 = unset)", e.pathLen),
			fmt.Sprintf("MaxPathLen=%d MaxPathLenZero=%v", maxPathLen, zero))
	}
}

func (d *diffs) akid(e *expected, got []byte) string {
	for i, w := range e.akid {
		if bytes.Equal(w, got) {
			if len(e.akid) == 1 || bytes.Equal(e.akid[0], e.akid[1]) {
				return "akid: template's (only candidate)"
			}
			if i == 0 {
				return "akid: template's value reported; doc comment of CreateCertificate promises parent's SubjectKeyId"
			}
			return "akid: parent's SubjectKeyId reported (doc comment); property statement says template's"
		}
	}
	var w []string
	for _, x := range e.akid {
		w = append(w, hex.EncodeToString(x))
	}
	d.add("AuthorityKeyId", "one of "+show(w), hex.EncodeToString(got))
	return ""
}

func extName(oid string) string {
	for i := range overrides {
		if overrides[i].oidString() == oid {
			return overrides[i].name
		}
	}
	return oid
}

type rawExt struct {
	oid      string
	critical bool
	value    []byte
}

func (d *diffs) extensions(e *expected, got []rawExt) {
	count := map[string]int{}
	for _, x := range got {
		count[x.oid]++
	}
	var dup []string
	for o, n := range count {
		if n > 1 {
			dup = append(dup, extName(o))
		}
	}
	sort.Strings(dup)
	for _, o := range dup {
		d.v = append(d.v, violation{
			sig:    fmt.Sprintf("issued certificate carries extension %s more than once (seen by %s)", o, d.who),
			detail: fmt.Sprintf("%d instances", count[o]),
		})
	}
	for _, w := range e.extras {
		n, match := 0, false
		for _, x := range got {
			if x.oid == w.oid {
				n++
				if x.critical == w.critical && bytes.Equal(x.value, w.value) {
					match = true
				}
			}
		}
		if n == 0 || !match {
			d.v = append(d.v, violation{
				sig:    fmt.Sprintf("%s does not report the template's extra extension unchanged (%s)", d.who, classOfExtra(w.oid)),
				detail: fmt.Sprintf("extra extension %s critical=%v value=%x: %d instance(s) in the certificate, exact copy present=%v", w.oid, w.critical, w.value, n, match),
			})
		}
	}
}

func classOfExtra(oid string) string {
	if oid == unknownExtOID.String() {
		return "unknown OID"
	}
	return "overriding " + extName(oid)
}

func hexIPs(l []net.IP) []string {
	var out []string
	for _, ip := range l {
		out = append(out, hex.EncodeToString(ip))
	}
	return out
}

func compareZ(c *x509.Certificate, e *expected) ([]violation, string) {
	d := &diffs{who: "zcrypto ParseCertificate"}
	if c.SerialNumber == nil || c.SerialNumber.Cmp(e.serial) != 0 {
		d.add("SerialNumber", e.serial.String(), fmt.Sprint(c.SerialNumber))
	}
	d.zName("Subject", e.subject, c.Subject)
	d.zName("Issuer", e.issuer, c.Issuer)
	d.timeEq("NotBefore", e.notBefore, c.NotBefore)
	d.timeEq("NotAfter", e.notAfter, c.NotAfter)
	if int(c.KeyUsage) != e.keyUsage {
		d.add("KeyUsage", fmt.Sprintf("%#x", e.keyUsage), fmt.Sprintf("%#x", int(c.KeyUsage)))
	}
	var we, ge []string
	for _, u := range e.eku {
		we = append(we, fmt.Sprint(int(u.z)))
	}
	for _, u := range c.ExtKeyUsage {
		ge = append(ge, fmt.Sprint(int(u)))
	}
	d.strs("ExtKeyUsage (constants)", we, ge)
	d.strs("UnknownExtKeyUsage", e.unknownEKU, oidStrings(c.UnknownExtKeyUsage))
	d.basic(e, c.BasicConstraintsValid, c.IsCA, c.MaxPathLen, c.MaxPathLenZero)
	d.bytesEq("SubjectKeyId", e.skid, c.SubjectKeyId)
	akidClass := d.akid(e, c.AuthorityKeyId)
	d.strs("DNSNames", e.dns, c.DNSNames)
	d.strs("EmailAddresses", e.emails, c.EmailAddresses)
	d.strs("IPAddresses", e.ips, hexIPs(c.IPAddresses))
	d.strs("OCSPServer", e.ocsp, c.OCSPServer)
	d.strs("IssuingCertificateURL", e.caIssuers, c.IssuingCertificateURL)
	d.strs("CRLDistributionPoints", e.crldp, c.CRLDistributionPoints)
	d.strs("PolicyIdentifiers", e.policies, oidStrings(c.PolicyIdentifiers))

	// name constraints
	zs := func(l []x509.GeneralSubtreeString) []string {
		var out []string
		for _, v := range l {
			s := v.Data
			if v.Min != 0 || v.Max != 0 {
				s += fmt.Sprintf(" min=%d max=%d", v.Min, v.Max)
			}
			out = append(out, s)
		}
		return out
	}
	zi := func(l []x509.GeneralSubtreeIP) []string {
		var out []string
		for _, v := range l {
			s := hex.EncodeToString(v.Data.IP) + "/" + hex.EncodeToString(v.Data.Mask)
			if v.Min != 0 || v.Max != 0 {
				s += fmt.Sprintf(" min=%d max=%d", v.Min, v.Max)
			}
			out = append(out, s)
		}
		return out
	}
	d.strs("PermittedDNSNames", e.permDNS, zs(c.PermittedDNSNames))
	d.strs("ExcludedDNSNames", e.exclDNS, zs(c.ExcludedDNSNames))
	d.strs("PermittedEmailAddresses", e.permEmail, zs(c.PermittedEmailAddresses))
	d.strs("ExcludedEmailAddresses", e.exclMail, zs(c.ExcludedEmailAddresses))
	d.strs("PermittedIPAddresses", e.permIP, zi(c.PermittedIPAddresses))
	d.strs("ExcludedIPAddresses", e.exclIP, zi(c.ExcludedIPAddresses))
	zd := func(fieldName string, want [][]atv, got []x509.GeneralSubtreeName) {
		if len(want) != len(got) {
			d.add(fieldName, fmt.Sprintf("%d names", len(want)), fmt.Sprintf("%d names", len(got)))
			return
		}
		for i := range want { // alphabets carry one name per list: no ordering question
			d.zName(fieldName, want[i], got[i].Data)
			if got[i].Min != 0 || got[i].Max != 0 {
				d.add(fieldName+" min/max", "0/0", fmt.Sprintf("%d/%d", got[i].Min, got[i].Max))
			}
		}
	}
	zd("PermittedDirectoryNames", e.permDir, c.PermittedDirectoryNames)
	zd("ExcludedDirectoryNames", e.exclDir, c.ExcludedDirectoryNames)
	for _, l := range [][]string{zs(c.PermittedURIs), zs(c.ExcludedURIs)} {
		if len(l) != 0 {
			d.add("URI name constraints", "none", show(l))
		}
	}
	if n := len(c.PermittedEdiPartyNames) + len(c.ExcludedEdiPartyNames) + len(c.PermittedRegisteredIDs) + len(c.ExcludedRegisteredIDs) + len(c.PermittedX400Addresses) + len(c.ExcludedX400Addresses); n != 0 {
		d.add("other name constraints", "none", fmt.Sprintf("%d", n))
	}
	if e.ncPresent && c.NameConstraintsCritical != e.ncCritical {
		d.add("NameConstraintsCritical", fmt.Sprint(e.ncCritical), fmt.Sprint(c.NameConstraintsCritical))
	}

	var raw []rawExt
	for _, x := range c.Extensions {
		raw = append(raw, rawExt{x.Id.String(), x.Critical, x.Value})
	}
	d.extensions(e, raw)

	// the certified key
	if !zPubEqual(c.PublicKey, e.pub) {
		d.add("PublicKey", fmt.Sprintf("%T of the fixture", e.pub), fmt.Sprintf("%T (different key)", c.PublicKey))
	}
	if e.sigAlg != 0 && c.SignatureAlgorithm != e.sigAlg {
		d.add("SignatureAlgorithm", e.sigAlg.String(), c.SignatureAlgorithm.String())
	}
	if e.sigAlg == 0 {
		if info, ok := algs[c.SignatureAlgorithm]; !ok || strings.TrimSuffix(info.family, "pss") != kindFamily(e.signKind) {
			d.add("SignatureAlgorithm", "an algorithm of the signer's key family", c.SignatureAlgorithm.String())
		}
	}
	return d.v, akidClass
}

func zPubEqual(got interface{}, want crypto.PublicKey) bool {
	switch w := want.(type) {
	case *stdrsa.PublicKey:
		g, ok := got.(*zrsa.PublicKey)
		return ok && g.N != nil && g.E != nil && g.N.Cmp(w.N) == 0 && g.E.IsInt64() && g.E.Int64() == int64(w.E)
	case *ecdsa.PublicKey:
		switch g := got.(type) {
		case *x509.AugmentedECDSA:
			return g.Pub != nil && g.Pub.Equal(w)
		case *ecdsa.PublicKey:
			return g.Equal(w)
		}
		return false
	case ed25519.PublicKey:
		g, ok := got.(ed25519.PublicKey)
		return ok && bytes.Equal(g, w)
	}
	return false
}

func compareStd(c *stdx509.Certificate, e *expected) []violation {
	d := &diffs{who: "Go crypto/x509 (independent parser)"}
	if c.SerialNumber == nil || c.SerialNumber.Cmp(e.serial) != 0 {
		d.add("SerialNumber", e.serial.String(), fmt.Sprint(c.SerialNumber))
	}
	d.stdName("Subject", e.subject, c.Subject)
	d.stdName("Issuer", e.issuer, c.Issuer)
	d.timeEq("NotBefore", e.notBefore, c.NotBefore)
	d.timeEq("NotAfter", e.notAfter, c.NotAfter)
	// crypto/x509.KeyUsage: KeyUsageDigitalSignature = 1 << iota in RFC 5280 bit order
	if int(c.KeyUsage) != e.keyUsage {
		d.add("KeyUsage", fmt.Sprintf("%#x", e.keyUsage), fmt.Sprintf("%#x", int(c.KeyUsage)))
	}
	allKnown := true
	var we, ge []string
	for _, u := range e.eku {
		if !u.stdKnown {
			allKnown = false
		}
		we = append(we, fmt.Sprint(int(u.std)))
	}
	for _, u := range c.ExtKeyUsage {
		ge = append(ge, fmt.Sprint(int(u)))
	}
	if allKnown {
		d.strs("ExtKeyUsage (RFC 5280 OIDs)", we, ge)
		d.strs("UnknownExtKeyUsage", e.unknownEKU, oidStrings(c.UnknownExtKeyUsage))
	} else if len(c.ExtKeyUsage)+len(c.UnknownExtKeyUsage) != len(e.eku)+len(e.unknownEKU) {
		d.add("number of extended key usages", fmt.Sprint(len(e.eku)+len(e.unknownEKU)), fmt.Sprint(len(c.ExtKeyUsage)+len(c.UnknownExtKeyUsage)))
	}
	d.basic(e, c.BasicConstraintsValid, c.IsCA, c.MaxPathLen, c.MaxPathLenZero)
	d.bytesEq("SubjectKeyId", e.skid, c.SubjectKeyId)
	d.akid(e, c.AuthorityKeyId)
	d.strs("DNSNames", e.dns, c.DNSNames)
	d.strs("EmailAddresses", e.emails, c.EmailAddresses)
	d.strs("IPAddresses", e.ips, hexIPs(c.IPAddresses))
	d.strs("OCSPServer", e.ocsp, c.OCSPServer)
	d.strs("IssuingCertificateURL", e.caIssuers, c.IssuingCertificateURL)
	d.strs("CRLDistributionPoints", e.crldp, c.CRLDistributionPoints)
	d.strs("PolicyIdentifiers", e.policies, oidStrings(c.PolicyIdentifiers))
	d.strs("PermittedDNSDomains", e.permDNS, c.PermittedDNSDomains)
	d.strs("ExcludedDNSDomains", e.exclDNS, c.ExcludedDNSDomains)
	d.strs("PermittedEmailAddresses", e.permEmail, c.PermittedEmailAddresses)
	d.strs("ExcludedEmailAddresses", e.exclMail, c.ExcludedEmailAddresses)
	si := func(l []*net.IPNet) []string {
		var out []string
		for _, v := range l {
			out = append(out, hex.EncodeToString(v.IP)+"/"+hex.EncodeToString(v.Mask))
		}
		return out
	}
	d.strs("PermittedIPRanges", e.permIP, si(c.PermittedIPRanges))
	d.strs("ExcludedIPRanges", e.exclIP, si(c.ExcludedIPRanges))
	// directory-name constraints are not decoded by crypto/x509
	stdNC := len(e.permDNS)+len(e.exclDNS)+len(e.permEmail)+len(e.exclMail)+len(e.permIP)+len(e.exclIP) > 0
	if stdNC && c.PermittedDNSDomainsCritical != e.ncCritical {
		d.add("PermittedDNSDomainsCritical", fmt.Sprint(e.ncCritical), fmt.Sprint(c.PermittedDNSDomainsCritical))
	}
	var raw []rawExt
	for _, x := range c.Extensions {
		raw = append(raw, rawExt{x.Id.String(), x.Critical, x.Value})
	}
	d.extensions(e, raw)
	type eq interface{ Equal(crypto.PublicKey) bool }
	if k, ok := c.PublicKey.(eq); !ok || !k.Equal(e.pub) {
		d.add("PublicKey", fmt.Sprintf("%T of the fixture", e.pub), fmt.Sprintf("%T", c.PublicKey))
	}
	if e.sigAlg != 0 && c.SignatureAlgorithm != algs[e.sigAlg].std {
		d.add("SignatureAlgorithm", algs[e.sigAlg].std.String(), c.SignatureAlgorithm.String())
	}
	return d.v
}

// ------------------------------------------------------------------ independent signature verification

func stdVerify(signKind int, alg x509.SignatureAlgorithm, der []byte) error {
	var outer struct {
		TBS stdasn1.RawValue
		Alg stdpkix.AlgorithmIdentifier
		Sig stdasn1.BitString
	}
	rest, err := stdasn1.Unmarshal(der, &outer)
	if err != nil {
		return fmt.Errorf("outer certificate structure: %v", err)
	}
	if len(rest) != 0 {
		return fmt.Errorf("trailing bytes after the certificate")
	}
	tbs, sig := outer.TBS.FullBytes, outer.Sig.RightAlign()
	info, ok := algs[alg]
	if !ok || info.family == "" {
		return fmt.Errorf("no verifier for algorithm %v", alg)
	}
	digest := tbs
	if info.hash != 0 {
		h := info.hash.New()
		h.Write(tbs)
		digest = h.Sum(nil)
	}
	switch pub := stdPub(signKind).(type) {
	case *stdrsa.PublicKey:
		switch info.family {
		case "rsa":
			return stdrsa.VerifyPKCS1v15(pub, info.hash, digest, sig)
		case "rsapss":
			return stdrsa.VerifyPSS(pub, info.hash, digest, sig, &stdrsa.PSSOptions{SaltLength: stdrsa.PSSSaltLengthEqualsHash})
		}
	case *ecdsa.PublicKey:
		if info.family == "ecdsa" {
			if !ecdsa.VerifyASN1(pub, digest, sig) {
				return fmt.Errorf("ECDSA signature does not verify")
			}
			return nil
		}
	case ed25519.PublicKey:
		if info.family == "ed25519" {
			if !ed25519.Verify(pub, tbs, sig) {
				return fmt.Errorf("Ed25519 signature does not verify")
			}
			return nil
		}
	}
	return fmt.Errorf("algorithm %v does not fit the signer key", alg)
}

// ------------------------------------------------------------------ one case

// issuerRes is how a scenario's issuer alternative resolves to call arguments and expectations.
type issuerRes struct {
	arg      *x509.Certificate        // the parent argument of CreateCertificate
	name     pkix.Name                // the issuer name the certificate must report
	skid     []byte                   // the parent's SubjectKeyId (nil when self-signed)
	verifier func() *x509.Certificate // parsed CA certificate with that name and the signer's key (nil when self-signed)
}

// parsedCAFor: CheckSignatureFrom compares the parent's RawSubject with the certificate's RawIssuer,
// so an unparsed parent template that a history has renamed needs a parsed CA certificate of the same
// name and key for the verification API. Minted once per (signer kind, name) like the other CA fixtures.
var parsedCAs sync.Map

func parsedCAFor(kind int, name pkix.Name) *x509.Certificate {
	key := fmt.Sprint(kind, "|", strings.Join(atvStrings(expectName(name)), "|"))
	if c, ok := parsedCAs.Load(key); ok {
		return c.(*x509.Certificate)
	}
	t := newParentStruct()
	t.Subject = name
	der, err := x509.CreateCertificate(fx.NewRand("c04-parent-"+key), t, t, signerKeys[kind].Public(), signerKeys[kind])
	if err != nil {
		panic("cannot mint CA fixture " + key + ": " + err.Error())
	}
	c, err := x509.ParseCertificate(der)
	if err != nil {
		panic("cannot parse CA fixture " + key + ": " + err.Error())
	}
	parsedCAs.Store(key, c)
	return c
}

func resolveIssuer(s *scenario) issuerRes {
	switch {
	case s.self():
		return issuerRes{arg: s.t, name: s.t.Subject}
	case s.issuer == issByStruct:
		kind, name := s.signKind, s.parentStruct.Subject
		if cp := s.customParent; cp != nil { // name probe: the parsed CA of that name was minted by the probe itself
			return issuerRes{arg: s.parentStruct, name: name, skid: s.parentStruct.SubjectKeyId, verifier: func() *x509.Certificate { return cp }}
		}
		return issuerRes{arg: s.parentStruct, name: name, skid: s.parentStruct.SubjectKeyId,
			verifier: func() *x509.Certificate { return parsedCAFor(kind, name) }}
	case s.issuer == issByCustom:
		cp := s.customParent
		return issuerRes{arg: cp, name: s.customName, skid: parentSKID, verifier: func() *x509.Certificate { return cp }}
	}
	p := parents[s.signKind][s.parentShape()]
	return issuerRes{arg: p.cert, name: p.name, skid: p.skid, verifier: func() *x509.Certificate { return p.cert }}
}

func subjectPub(s *scenario) crypto.PublicKey {
	if s.self() {
		return signerKeys[s.signKind].Public()
	}
	return subjectKeys[s.subjKind].Public()
}

// issue performs the creation call on the scenario's objects and nothing else.
func issue(s *scenario) (der []byte, err error, panicked bool, msg, site string) {
	is := resolveIssuer(s)
	panicked, msg, site = ev.Try(func() {
		der, err = x509.CreateCertificate(fx.NewRand("c04-sign"), s.t, is.arg, subjectPub(s), signerKeys[s.signKind])
	})
	return
}

// evaluate: one template, created once from fresh objects.
func evaluate(s *scenario) *result { return evaluateAs(s, s, false) }

// evaluateAs performs the creation call on the objects of live and judges the result by the
// expectation derived from model. For a single-shot case live == model. In a reuse history live
// holds the objects that earlier creation calls have already seen (edited in place since), model
// is a fresh construction of what those objects are SUPPOSED to hold now: nothing a creation call
// may have left behind in its inputs can reach the expectation.
//
// namePaths selects the tier of the input immutability probe: false = digest only (r.changed),
// true = path-naming snapshots (r.mutated and the probe classes); the drivers re-execute a case
// with namePaths when its digest changed.
func evaluateAs(live, model *scenario, namePaths bool) *result {
	r := &result{}
	viol := func(sig, detail string) { r.viol = append(r.viol, violation{sig, detail}) }
	class := func(f string, a ...any) { r.classes = append(r.classes, fmt.Sprintf(f, a...)) }
	s := model

	li, mi := resolveIssuer(live), resolveIssuer(model)
	issuerName, parentSKID := mi.name, mi.skid

	dom, why := inDomain(model, issuerName)
	// the expectation is fixed before the call (values copied)
	var e *expected
	if dom {
		e = expect(model, issuerName, parentSKID)
	}

	// input immutability probe: everything reachable from the template and the parent, before and after
	roots := map[string]any{"template": live.t}
	if li.arg != live.t {
		roots["parent"] = li.arg
	}
	var before snap
	var digest []byte
	if namePaths {
		before = takeSnap(roots)
	} else {
		digest = takeDigest(live.t, li.arg)
	}

	der, err, panicked, msg, site := issue(live)
	r.ops++
	if namePaths {
		for _, p := range before.changedPaths(takeSnap(roots)) {
			r.mutated = append(r.mutated, p)
			class("probe: CreateCertificate changed its input %s (undocumented; what that does to a later call is judged by the reuse histories)", p)
		}
	} else if !bytes.Equal(digest, takeDigest(live.t, li.arg)) {
		r.changed = true
	}
	if panicked {
		if dom {
			viol(fmt.Sprintf("panic@%s: %s (CreateCertificate, template inside the documented domain)", site, ev.MsgClass(msg)), msg)
		} else {
			class("out-of-domain (%s): CreateCertificate PANICS @%s: %s", why, site, ev.MsgClass(msg))
		}
		return r
	}
	if !dom {
		if err != nil {
			class("out-of-domain (%s): CreateCertificate returns error: %s", why, ev.MsgClass(err.Error()))
			return r
		}
		var perr error
		pp, pmsg, psite := ev.Try(func() { _, perr = x509.ParseCertificate(der) })
		r.ops++
		switch {
		case pp:
			class("out-of-domain (%s): certificate created; ParseCertificate PANICS @%s: %s", why, psite, ev.MsgClass(pmsg))
		case perr != nil:
			class("out-of-domain (%s): certificate created; zcrypto rejects its own certificate: %s", why, ev.MsgClass(perr.Error()))
		default:
			class("out-of-domain (%s): certificate created and parsed (no expectation)", why)
		}
		return r
	}
	if err != nil {
		viol("CreateCertificate fails inside the documented domain: "+ev.MsgClass(err.Error()), err.Error())
		return r
	}
	r.der = der

	var zc *x509.Certificate
	panicked, msg, site = ev.Try(func() { zc, err = x509.ParseCertificate(der) })
	r.ops++
	if panicked {
		viol(fmt.Sprintf("panic@%s: %s (ParseCertificate of an issued certificate)", site, ev.MsgClass(msg)), msg+" der="+hex.EncodeToString(der))
		return r
	}
	if err != nil {
		viol("ParseCertificate rejects the certificate CreateCertificate issued: "+ev.MsgClass(err.Error()), err.Error()+" der="+hex.EncodeToString(der))
		return r
	}
	r.created = true
	zv, akidClass := compareZ(zc, e)
	for _, v := range zv {
		viol(v.sig, v.detail+" der="+hex.EncodeToString(der))
	}
	if akidClass != "" {
		class("%s", akidClass)
	}

	// signature against the parent: the real CheckSignatureFrom ...
	verifier := zc // self-signed: the certificate is its own parent
	if !s.self() {
		verifier = mi.verifier()
	}
	var serr error
	panicked, msg, site = ev.Try(func() { serr = zc.CheckSignatureFrom(verifier) })
	r.ops++
	// RFC 5280 §4.2.1.9 / §4.2.1.3: a parent may sign certificates only as a CA whose key usage, if
	// present, includes keyCertSign. A self-signed template that is not such a CA is not a valid
	// "parent": CheckSignatureFrom may refuse it, the raw signature must still verify.
	parentMaySign := true
	if s.self() {
		parentMaySign = e.bcValid && e.isCA && (e.keyUsage == 0 || e.keyUsage&(1<<5) != 0)
	}
	switch {
	case panicked:
		viol(fmt.Sprintf("panic@%s: %s (CheckSignatureFrom)", site, ev.MsgClass(msg)), msg)
	case serr == nil:
		if s.self() {
			class("in-domain: created, parsed, CheckSignatureFrom(self)=nil")
		} else {
			class("in-domain: created, parsed, CheckSignatureFrom(parent)=nil")
		}
	case !parentMaySign:
		if _, ok := serr.(x509.ConstraintViolationError); !ok {
			viol("CheckSignatureFrom(self) fails with something else than ConstraintViolationError: "+ev.MsgClass(serr.Error()), serr.Error())
		} else if cerr := zc.CheckSignature(zc.SignatureAlgorithm, zc.RawTBSCertificate, zc.Signature); cerr != nil {
			viol("self-signed certificate does not verify under its own key: "+ev.MsgClass(cerr.Error()), cerr.Error())
		} else {
			class("in-domain: created, parsed, self-signed template is not a CA allowed to sign: CheckSignatureFrom=ConstraintViolationError, CheckSignature=nil")
		}
		r.ops++
	default:
		viol("CheckSignatureFrom(parent) rejects the issued certificate: "+ev.MsgClass(serr.Error()), serr.Error()+" der="+hex.EncodeToString(der))
	}
	// ... and the standard library's primitives over the TBS bytes
	valg := e.sigAlg
	if valg == 0 {
		valg = zc.SignatureAlgorithm
	}
	if verr := stdVerify(s.signKind, valg, der); verr != nil {
		viol("signature of the issued certificate does not verify with the standard library primitives under the signer's key", fmt.Sprintf("alg=%v: %v der=%s", valg, verr, hex.EncodeToString(der)))
	}

	// independent parser
	sc, perr := stdx509.ParseCertificate(der)
	if perr != nil {
		// 0 cases on the unchanged tree over the whole enumeration: every certificate issued from a template inside
		// the documented domain is well-formed enough for the independent parser
		viol("Go crypto/x509 (independent parser) rejects the certificate CreateCertificate issued: "+ev.MsgClass(perr.Error()), perr.Error()+" der="+hex.EncodeToString(der))
	} else {
		sv := compareStd(sc, e)
		for _, v := range sv {
			viol(v.sig, v.detail+" der="+hex.EncodeToString(der))
		}
		if len(sv) == 0 {
			class("stdlib crypto/x509 parses the certificate and agrees with the expectation")
		}
	}
	return r
}
