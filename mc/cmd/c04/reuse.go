package main

// Reuse histories: CreateCertificate is called repeatedly on the SAME template
// and parent objects, which are edited in place between the calls (the usual
// "one template, loop over hosts/serials" use). The certificate issued by the
// last call must report the template as it is at that call, exactly as if it
// had been issued from freshly built objects holding the same values:
//
//   - the full expectation/parse/signature evaluation of the single-shot
//     enumeration (evaluateAs), with the expectation derived from a FRESH
//     construction of base+edits (the model), never from the reused objects;
//   - differential: the TBSCertificate bytes (cut out with encoding/asn1) must
//     equal those of a certificate issued from a second fresh construction;
//   - input immutability probe (snap.go) around every creation call: reported
//     as outcome classes, it names what a creation call wrote into its inputs.
//
// Bounded-exhaustive: every base template with at most one non-default field x
// every sequence of n-1 edits over the alphabet below (n = 2; thorough adds
// n = 3 with the first edit from the covering sub-alphabet). Only the last call
// of a history is judged: every proper prefix is a history of its own.

import (
	"bytes"
	stdasn1 "encoding/asn1"
	"encoding/hex"
	"fmt"

	zasn1 "github.com/zmap/zcrypto/encoding/asn1"
	"github.com/zmap/zcrypto/x509/pkix"
)

// hedit is one in-place edit of the reused objects between two creation calls.
type hedit struct {
	label    string
	field    int  // >= 0: "field := alternative alt" of the field table; -1: an extra edit
	alt      int
	covering bool // member of the covering sub-alphabet
	apply    func(s *scenario)
}

var reuseEdits []hedit

func buildReuseEdits() {
	reuseEdits = nil
	for f := range fields {
		for a := range fields[f].alts {
			f, a := f, a
			reuseEdits = append(reuseEdits, hedit{
				label: fields[f].name + " := " + fields[f].alts[a].label, field: f, alt: a,
				covering: a <= 1, // back to the default, and the first alternative, of every field
				apply:    func(s *scenario) { s.set(f, a) },
			})
		}
	}
	extra := func(label string, apply func(s *scenario)) {
		reuseEdits = append(reuseEdits, hedit{label: label, field: -1, covering: true, apply: func(s *scenario) { apply(s); s.normalise() }})
	}
	// the call is simply repeated
	extra("(no edit)", func(s *scenario) {})
	// edits INSIDE the existing values instead of replacing them
	extra("Subject.CommonName assigned in place", func(s *scenario) { s.t.Subject.CommonName = "renamed.example" })
	extra("Subject.Organization appended in place", func(s *scenario) {
		s.t.Subject.Organization = append(s.t.Subject.Organization, "Added Org")
	})
	extra("SerialNumber.SetInt64 on the existing big.Int", func(s *scenario) { s.t.SerialNumber.SetInt64(4242) })
	extra("DNSNames appended in place", func(s *scenario) { s.t.DNSNames = append(s.t.DNSNames, "added.example") })
	extra("ExtraExtensions appended in place", func(s *scenario) {
		s.t.ExtraExtensions = append(s.t.ExtraExtensions, pkix.Extension{Id: oid(1, 3, 6, 1, 4, 1, 99999, 2), Value: []byte{0x01, 0x01, 0xff}})
	})
	extra("IsCA toggled", func(s *scenario) { s.t.IsCA = !s.t.IsCA })
	extra("SubjectKeyId bytes overwritten in place", func(s *scenario) {
		for i := range s.t.SubjectKeyId {
			s.t.SubjectKeyId[i] ^= 0xff
		}
	})
	// the parent, when it is an unparsed template (no effect on the call otherwise)
	extra("parent.Subject := shape1-multivalued", func(s *scenario) { s.parentStruct.Subject = nameShape(1, "") })
	extra("parent.Subject.CommonName assigned in place", func(s *scenario) { s.parentStruct.Subject.CommonName = "Renamed CA" })
	extra("parent.Subject := extra-names", func(s *scenario) {
		s.parentStruct.Subject = pkix.Name{CommonName: "CA 2", ExtraNames: []pkix.AttributeTypeAndValue{{Type: zasn1.ObjectIdentifier{2, 5, 4, 12}, Value: "t"}}}
	})
	extra("parent.SubjectKeyId := other 20 bytes", func(s *scenario) { s.parentStruct.SubjectKeyId = bytesN(20, 0x30) })
}

// rhistory is a reuse history: the base template and the edits (indices into reuseEdits).
type rhistory struct {
	base  assign
	edits []int
}

// applyHistory constructs fresh objects holding what the reused objects are supposed to hold
// after the first n edits.
func (h rhistory) fresh(n int) *scenario {
	s := build(h.base)
	for _, e := range h.edits[:n] {
		reuseEdits[e].apply(s)
	}
	return s
}

// redundant: the edit would set a field to the alternative it already has (the "(no edit)" entry covers that).
func (h rhistory) redundant(e int) bool {
	ed := reuseEdits[e]
	if ed.field < 0 {
		return false
	}
	cur := 0
	for _, fa := range h.base {
		if fa[0] == ed.field {
			cur = fa[1]
		}
	}
	for _, p := range h.edits {
		if reuseEdits[p].field == ed.field {
			cur = reuseEdits[p].alt
		}
	}
	return cur == ed.alt
}

func enumerateHistories(bases []assign, length int) []rhistory {
	var out []rhistory
	for _, b := range bases {
		var rec func(h rhistory)
		rec = func(h rhistory) {
			if len(h.edits) == length-1 {
				out = append(out, rhistory{b, append([]int(nil), h.edits...)})
				return
			}
			last := len(h.edits) == length-2
			for e := range reuseEdits {
				if !last && !reuseEdits[e].covering { // only the last edit ranges over the full alphabet
					continue
				}
				if h.redundant(e) {
					continue
				}
				rec(rhistory{b, append(h.edits, e)})
			}
		}
		rec(rhistory{base: b})
	}
	return out
}

func (h rhistory) labels() []string {
	var l []string
	for _, e := range h.edits {
		l = append(l, reuseEdits[e].label)
	}
	return l
}

const reusePrefix = "reused template/parent objects (edited in place between CreateCertificate calls): "

func tbsOf(der []byte) ([]byte, error) {
	var outer struct {
		TBS stdasn1.RawValue
		Alg stdasn1.RawValue
		Sig stdasn1.BitString
	}
	if _, err := stdasn1.Unmarshal(der, &outer); err != nil {
		return nil, err
	}
	return outer.TBS.FullBytes, nil
}

// runHistory executes a history on one set of objects and judges its last call.
func runHistory(h rhistory, namePaths bool) *result {
	live := build(h.base)
	ops := 0
	changedEarlier := false
	var mutatedEarlier []string
	for _, e := range h.edits {
		roots := map[string]any{"template": live.t, "parentStruct": live.parentStruct}
		var before snap
		var digest []byte
		if namePaths {
			before = takeSnap(roots)
		} else {
			digest = takeDigest(live.t, live.parentStruct)
		}
		issue(live) // judged as the last call of the prefix history; here it only has to have happened
		ops++
		if namePaths {
			mutatedEarlier = append(mutatedEarlier, before.changedPaths(takeSnap(roots))...)
		} else if !bytes.Equal(digest, takeDigest(live.t, live.parentStruct)) {
			changedEarlier = true
		}
		reuseEdits[e].apply(live)
	}
	n := len(h.edits)
	r := evaluateAs(live, h.fresh(n), namePaths)
	r.ops += ops
	r.changed = r.changed || changedEarlier
	r.mutated = append(r.mutated, mutatedEarlier...)
	if len(r.viol) > 0 {
		// Is it the reuse, or do freshly built objects holding the same values fail alike? The latter is a
		// failure of the template's shape and keeps the signature of the single-shot enumeration.
		f := h.fresh(n)
		alsoFresh := map[string]bool{}
		for _, v := range evaluateAs(f, f, false).viol {
			alsoFresh[v.sig] = true
		}
		for i := range r.viol {
			if !alsoFresh[r.viol[i].sig] {
				r.viol[i].sig = reusePrefix + r.viol[i].sig
			}
		}
	}
	keep := r.classes[:0]
	for _, cl := range r.classes { // the single-shot classes are not repeated per history
		if len(cl) > 6 && cl[:6] == "probe:" {
			keep = append(keep, cl)
		}
	}
	r.classes = keep
	class := func(s string) { r.classes = append(r.classes, "reuse history: "+s) }
	for _, p := range mutatedEarlier {
		class("probe: an earlier call of the history had changed its input " + p)
	}
	if r.der == nil {
		if len(r.viol) == 0 {
			class("last call outside the documented domain or refused: not judged")
		}
		return r
	}
	// differential: a second fresh construction of the same values
	f := h.fresh(n)
	fder, ferr, fp, fmsg, _ := issue(f)
	r.ops++
	switch {
	case fp || ferr != nil:
		r.viol = append(r.viol, violation{reusePrefix + "a certificate is issued from the reused objects but not from freshly built objects holding the same values",
			fmt.Sprintf("fresh objects: panic=%v %s err=%v", fp, fmsg, ferr)})
	default:
		lt, e1 := tbsOf(r.der)
		ft, e2 := tbsOf(fder)
		if e1 != nil || e2 != nil || !bytes.Equal(lt, ft) {
			r.viol = append(r.viol, violation{reusePrefix + "the TBSCertificate differs from the one issued from freshly built objects holding the same values (an earlier call left state in its inputs)",
				fmt.Sprintf("reused tbs=%s fresh tbs=%s", hex.EncodeToString(lt), hex.EncodeToString(ft))})
		} else if len(r.viol) == 0 {
			class("last call round-trips the edited template and its TBSCertificate equals the one from fresh objects")
		}
	}
	return r
}
