package main

// Re-entrancy pass (internal/nohb): every connection derives its keys on its own goroutine with the same package
// functions; "the derived bytes are the RFC's function of (secret, label, seed, length)" must not depend on another
// connection deriving at the same time (a hasher, an HMAC or an output buffer kept at package scope or in the shared
// cipher-suite table entry would leak one connection's secrets into another's keys). Every ordered pair of the
// menu below is run as "first call to completion, then the second on another goroutine" WITHOUT a happens-before
// edge in a -race build: ThreadSanitizer reports every location both calls touch unsynchronised, for all
// interleavings at once. The cipher-suite table entries (read by every derivation) are the library's own shared
// objects and are deliberately reached by both calls.
//
// Menu = every function of the check's table, each through the main phase's eval on the caller's own spec:
// splitPreMasterSecret; the three PRFs directly; for one suite per (version, PRF class) — TLS 1.0, TLS 1.2/SHA-256,
// TLS 1.2/SHA-384 — prfForVersion, masterFromPreMasterSecret, keysFromMasterSecret, the Finished hashes (chunked
// transcript), exportKeyingMaterial; for the first TLS 1.3 suite of each hash expandLabel, deriveSecret (chunked
// transcript), extract, nextTrafficSecret, trafficKey, finishedHash, exportKeyingMaterial.

import (
	"fmt"
	"os"
	"time"

	"github.com/zmap/zcrypto/tls"
	"verifmc/internal/ev"
	"verifmc/internal/nohb"
)

func reentrantRepoDir() string {
	if v := os.Getenv("VERIF_REPO_DIR"); v != "" {
		return v
	}
	return "/repo"
}

func reentrantOps() []nohb.Op {
	if fails, _ := selfCheck(); len(fails) > 0 {
		panic("c26 re-entrancy: oracle self-check failed")
	}
	suites := tls.VerifC26Suites()
	if len(suites13) == 0 {
		for _, s := range tls.VerifC26Suites13() {
			p, ok := rfcSuites13[s.ID]
			info := suite13Info{idx: s.Index, id: s.ID, known: ok}
			if ok {
				info.hname, info.h, info.keyLen = p.hash, hashByName(p.hash), p.keyLen
			}
			suites13 = append(suites13, info)
		}
	}
	var ops []nohb.Op
	// mk builds the caller's own spec (fresh byte strings) each time
	add := func(name string, mk func() spec) {
		ops = append(ops, nohb.Op{Name: name, New: func() func() {
			s := mk()
			return func() { eval(s, nil) }
		}})
	}
	add("splitPreMasterSecret(47 bytes)", func() spec { return spec{Fn: "split", Secret: pat(47, 1)} })
	for _, class := range allClasses {
		add("PRF "+string(class)+" (48-byte secret, 100 bytes out)", func() spec {
			return spec{Fn: "prf", Class: class, Secret: pat(48, 10), Label: "key expansion", Seed: pat(64, 20), Length: 100}
		})
	}
	done := map[string]bool{}
	for _, v := range []uint16{verTLS10, verTLS12} {
		for _, su := range suites {
			class, ok := oClass(v, su.ID)
			if !ok || done[verName(v)+string(class)] {
				continue
			}
			done[verName(v)+string(class)] = true
			base := spec{Version: v, Table: su.Table, Index: su.Index, SuiteID: su.ID}
			tag := fmt.Sprintf(" [%s suite 0x%04x -> %s]", verName(v), su.ID, class)
			add("prfForVersion"+tag, func() spec {
				s := base
				s.Fn, s.Secret, s.Label, s.Seed, s.Length = "prfForVersion", pat(48, 30), "test label", pat(64, 31), 100
				return s
			})
			add("masterFromPreMasterSecret"+tag, func() spec {
				s := base
				s.Fn, s.Secret, s.CR, s.SR = "master", pat(48, 40), pat(32, 41), pat(32, 42)
				return s
			})
			add("keysFromMasterSecret"+tag, func() spec {
				s := base
				s.Fn, s.Secret, s.CR, s.SR = "keys", pat(48, 50), pat(32, 51), pat(32, 52)
				s.MacLen, s.KeyLen, s.IVLen = su.MacLen, su.KeyLen, su.IVLen
				return s
			})
			add("finishedHash client/server sums"+tag, func() spec {
				s := base
				s.Fn, s.Secret, s.Chunks = "finished", pat(48, 61), []hexb{pat(65, 60), pat(64, 62)}
				return s
			})
			add("exportKeyingMaterial"+tag, func() spec {
				s := base
				s.Fn, s.Secret, s.CR, s.SR, s.Label, s.Seed, s.Length = "ekm", pat(48, 70), pat(32, 71), pat(32, 72), "EXPORTER-x", pat(7, 73), 100
				return s
			})
		}
	}
	hashDone := map[string]bool{}
	for _, su := range suites13 {
		if !su.known || hashDone[su.hname] {
			continue
		}
		hashDone[su.hname] = true
		hl := su.h().Size()
		base := spec{Suite13: su.idx, SuiteID: su.id}
		tag := fmt.Sprintf(" [TLS 1.3 suite 0x%04x, %s]", su.id, su.hname)
		add("expandLabel"+tag, func() spec {
			s := base
			s.Fn, s.Secret, s.Label, s.Seed, s.Length = "expandLabel", pat(hl, 80), "c hs traffic", pat(32, 81), 77
			return s
		})
		add("deriveSecret"+tag, func() spec {
			s := base
			s.Fn, s.Secret, s.Label, s.Chunks = "deriveSecret", pat(hl, 82), "derived", []hexb{pat(65, 83), pat(64, 84)}
			return s
		})
		add("extract"+tag, func() spec {
			s := base
			s.Fn, s.Secret, s.Seed = "extract", pat(hl, 84), pat(hl, 85)
			return s
		})
		add("nextTrafficSecret"+tag, func() spec {
			s := base
			s.Fn, s.Secret = "nextTrafficSecret", pat(hl, 86)
			return s
		})
		add("trafficKey"+tag, func() spec {
			s := base
			s.Fn, s.Secret = "trafficKey", pat(hl, 86)
			return s
		})
		add("finishedHash"+tag, func() spec {
			s := base
			s.Fn, s.Secret, s.Chunks = "finished13", pat(hl, 86), []hexb{pat(129, 88), pat(1, 89)}
			return s
		})
		add("exportKeyingMaterial"+tag, func() spec {
			s := base
			s.Fn, s.Secret, s.Label, s.Chunks, s.Seed, s.Length = "exporter13", pat(hl, 90), "EXPORTER-x", []hexb{pat(129, 91)}, pat(32, 92), 100
			return s
		})
	}
	return ops
}

const reentrantMenuText = "every function of the table through eval on an own spec: splitPreMasterSecret, the 3 PRFs, and for one suite per (version, PRF class) prfForVersion, master secret, key block, Finished, exporter; for the first TLS 1.3 suite of each hash expandLabel, deriveSecret, extract, nextTrafficSecret, trafficKey, Finished, exporter"

func reentrantPhase(c *ev.Ctx) {
	if c.Replay != nil {
		return // --replay re-executes one recorded witness of the main phase only
	}
	t0 := time.Now()
	o := nohb.Run(os.Getenv("VERIF_RACE_BIN"), nil, 10*time.Minute)
	if o.Broken != "" {
		c.Broken("re-entrancy pass: %s", o.Broken)
	}
	for _, sig := range o.Sigs() {
		c.Violation("re-entrancy: two calls on different goroutines share unsynchronised state: "+sig, map[string]any{"pair": o.Races[sig], "kind": "nohb"})
	}
	for k, v := range o.Panics {
		c.Violation("re-entrancy: "+k, map[string]any{"pair": v, "kind": "nohb"})
	}
	c.Outcome("re-entrancy pairs without a report", int64(o.Pairs))
	c.States.Add(int64(o.Pairs))
	c.Traces.Add(int64(o.Pairs))
	c.Set("reentrancy", map[string]any{"calls": o.Ops, "ordered_pairs": o.Pairs, "race_signatures": len(o.Races), "harness_only_reports": o.Harness, "canary_ok": o.CanaryOK,
		"seconds": time.Since(t0).Seconds(), "menu": reentrantMenuText,
		"method": "every ordered pair (a, b) of the menu: a to completion on one goroutine, then b on another, without a happens-before edge, in a -race build; a ThreadSanitizer report with both accesses in the repository is a violation"})
}
