// Standard-library handshake probe: the WIRING of the key schedule inside real
// handshakes (which secret, which label, which transcript point feeds what),
// checked against two independent references at once:
//
//   - the Go standard library's crypto/tls as the peer (zcrypto client <-> std
//     server and std client <-> zcrypto server): every NSS key-log line both
//     libraries wrote for the connection and the ExportKeyingMaterial outputs
//     must be identical;
//   - the oracle of oracle.go (RFC 8446 §7.1 / §7.5 / §4.4.4 / §4.2.11, RFC 5246
//     §8.1, RFC 5705) driven by nothing but the recorded wire bytes and the
//     (EC)DHE shared secret: the ephemeral private key is recovered from the
//     recorded output of the deterministic Config.Rand of either side (the 32
//     bytes whose public key is the key share on the wire), the encrypted
//     handshake flights are opened with a record layer written here (RFC 8446
//     §5.2/§5.3) under the oracle's own traffic keys.
//
// Transport: the in-memory duplex of internal/tlsx. Nothing waits on the wall
// clock: a handshake that cannot progress is detected structurally (both ends
// parked in Read / idle) and yields "no verdict" + Incomplete, never a violation.
package main

import (
	"bytes"
	"crypto/aes"
	"crypto/cipher"
	"crypto/ecdh"
	"crypto/rand"
	stdtls "crypto/tls"
	stdx509 "crypto/x509"
	"crypto/x509/pkix"
	"encoding/hex"
	"fmt"
	"io"
	"math/big"
	"strings"
	"sync"
	"time"

	"github.com/zmap/zcrypto/tls"
	"golang.org/x/crypto/chacha20poly1305"
	"verifmc/internal/ev"
	"verifmc/internal/fx"
	"verifmc/internal/tlsx"
)

// ------------------------------------------------------------------ cases

type stdCase struct {
	Name    string   `json:"name"`
	ZClient bool     `json:"zcrypto_is_client"` // else zcrypto is the server
	Version uint16   `json:"version"`
	Suite   uint16   `json:"suite"`
	CCurves []uint16 `json:"client_curves"`
	SCurves []uint16 `json:"server_curves"`
	Resume  bool     `json:"second_connection_resumes"`
}

type stdWitness struct {
	Spec       spec    `json:"spec"` // Fn = "std-handshake" (routes --replay)
	Case       stdCase `json:"case"`
	Connection int     `json:"connection"`
	What       string  `json:"what"`
	Zcrypto    string  `json:"zcrypto"`
	StdLib     string  `json:"crypto_tls"`
	Oracle     string  `json:"oracle"`
	Detail     string  `json:"detail"`
}

func stdCases() []stdCase {
	var out []stdCase
	x, p := uint16(29), uint16(23)
	for _, zc := range []bool{true, false} {
		role := "std-client+zcrypto-server"
		if zc {
			role = "zcrypto-client+std-server"
		}
		for _, s := range []uint16{0x1301, 0x1302, 0x1303} {
			out = append(out, stdCase{fmt.Sprintf("%s/TLS1.3/0x%04x/X25519", role, s), zc, 0x0304, s, []uint16{x}, []uint16{x}, false})
		}
		out = append(out, stdCase{role + "/TLS1.3/0x1301/P-256", zc, 0x0304, 0x1301, []uint16{p}, []uint16{p}, false})
		out = append(out, stdCase{role + "/TLS1.3/0x1301/HelloRetryRequest X25519->P-256", zc, 0x0304, 0x1301, []uint16{x, p}, []uint16{p}, false})
		out = append(out, stdCase{role + "/TLS1.3/0x1302/HelloRetryRequest X25519->P-256", zc, 0x0304, 0x1302, []uint16{x, p}, []uint16{p}, false})
		out = append(out, stdCase{role + "/TLS1.3/0x1301/PSK resumption", zc, 0x0304, 0x1301, []uint16{x}, []uint16{x}, true})
		out = append(out, stdCase{role + "/TLS1.3/0x1302/PSK resumption", zc, 0x0304, 0x1302, []uint16{x}, []uint16{x}, true})
		for _, s := range []uint16{0xC02F, 0xC030} { // ECDHE_RSA, P_SHA256 / P_SHA384
			out = append(out, stdCase{fmt.Sprintf("%s/TLS1.2/0x%04x/X25519", role, s), zc, verTLS12, s, []uint16{x}, []uint16{x}, false})
		}
		out = append(out, stdCase{role + "/TLS1.2/0xc02f/P-256", zc, verTLS12, 0xC02F, []uint16{p}, []uint16{p}, false})
		out = append(out, stdCase{role + "/TLS1.1/0xc013/X25519", zc, verTLS11, 0xC013, []uint16{x}, []uint16{x}, false})
		out = append(out, stdCase{role + "/TLS1.0/0xc013/X25519", zc, verTLS10, 0xC013, []uint16{x}, []uint16{x}, false})
	}
	return out
}

// ------------------------------------------------------------------ plumbing

// recRand: deterministic entropy (tlsx.DetRand) that records every read longer
// than one byte.
type recRand struct {
	mu    sync.Mutex
	src   io.Reader
	reads [][]byte
}

func (r *recRand) Read(p []byte) (int, error) {
	n, err := r.src.Read(p)
	if len(p) > 1 {
		r.mu.Lock()
		r.reads = append(r.reads, append([]byte(nil), p[:n]...))
		r.mu.Unlock()
	}
	return n, err
}

func (r *recRand) snapshot() [][]byte {
	r.mu.Lock()
	defer r.mu.Unlock()
	return append([][]byte(nil), r.reads...)
}

type endpoint interface {
	Handshake() error
	Read([]byte) (int, error)
	Write([]byte) (int, error)
	Close() error
}

type ekmFn func(label string, context []byte, n int) ([]byte, error)

var (
	stdCertOnce sync.Once
	stdCertVal  stdtls.Certificate
	stdCertErr  error
)

func stdServerCert() (stdtls.Certificate, error) {
	stdCertOnce.Do(func() {
		key := fx.StdRSA("rsa2048")
		tmpl := &stdx509.Certificate{SerialNumber: big.NewInt(2613), Subject: pkix.Name{CommonName: "srv.example"},
			NotBefore: fx.T0.Add(-time.Hour), NotAfter: fx.T0.Add(24 * 365 * 20 * time.Hour), DNSNames: []string{"srv.example"},
			KeyUsage: stdx509.KeyUsageKeyEncipherment | stdx509.KeyUsageDigitalSignature, ExtKeyUsage: []stdx509.ExtKeyUsage{stdx509.ExtKeyUsageServerAuth}}
		der, err := stdx509.CreateCertificate(rand.Reader, tmpl, tmpl, &key.PublicKey, key) // the certificate bytes are never compared
		stdCertVal, stdCertErr = stdtls.Certificate{Certificate: [][]byte{der}, PrivateKey: key}, err
	})
	return stdCertVal, stdCertErr
}

func curvesZ(l []uint16) []tls.CurveID {
	o := make([]tls.CurveID, len(l))
	for i, x := range l {
		o[i] = tls.CurveID(x)
	}
	return o
}

func curvesS(l []uint16) []stdtls.CurveID {
	o := make([]stdtls.CurveID, len(l))
	for i, x := range l {
		o[i] = stdtls.CurveID(x)
	}
	return o
}

// connResult is everything one connection left behind.
type connResult struct {
	cErr, sErr       string
	panicked         string
	stalled          bool
	c2s, s2c         []byte
	zLog, sLog       []tlsx.KeyLine
	zRand, sRand     [][]byte
	zEKM, sEKM       ekmFn
	zResumed, sResum bool
	done             bool // both handshakes completed
	dataErr          string
}

// stdPair holds the two configurations of a case (reused for the resumed connection).
type stdPair struct {
	ec         stdCase
	zcfg       *tls.Config
	scfg       *stdtls.Config
	zLog, sLog *tlsx.KeyLog
	zRnd, sRnd *recRand
}

func fixedNow() time.Time { return fx.T0 }

func newStdPair(ec stdCase) (*stdPair, error) {
	p := &stdPair{ec: ec, zLog: &tlsx.KeyLog{}, sLog: &tlsx.KeyLog{}}
	p.zRnd = &recRand{src: tlsx.NewDetRand("c26-std-z-" + ec.Name)}
	p.sRnd = &recRand{src: tlsx.NewDetRand("c26-std-s-" + ec.Name)}
	p.zcfg = &tls.Config{Rand: p.zRnd, Time: fixedNow, KeyLogWriter: p.zLog, MinVersion: tls.VersionTLS10, MaxVersion: ec.Version,
		CipherSuites: []uint16{ec.Suite}}
	p.scfg = &stdtls.Config{Rand: p.sRnd, Time: fixedNow, KeyLogWriter: p.sLog, MinVersion: stdtls.VersionTLS10, MaxVersion: ec.Version}
	if ec.Version <= verTLS12 {
		p.scfg.CipherSuites = []uint16{ec.Suite}
	}
	if ec.ZClient {
		cert, err := stdServerCert()
		if err != nil {
			return nil, err
		}
		p.zcfg.InsecureSkipVerify = true
		p.zcfg.ServerName = "srv.example"
		p.zcfg.CurvePreferences = curvesZ(ec.CCurves)
		p.scfg.Certificates = []stdtls.Certificate{cert}
		p.scfg.CurvePreferences = curvesS(ec.SCurves)
		if ec.Resume {
			p.zcfg.ClientSessionCache = tls.NewLRUClientSessionCache(4)
		} else {
			p.scfg.SessionTicketsDisabled = true
		}
	} else {
		id := tlsx.ServerIdentity("rsa2048")
		p.zcfg.Certificates = []tls.Certificate{id.TLSCert()}
		p.zcfg.CurvePreferences = curvesZ(ec.SCurves)
		p.scfg.InsecureSkipVerify = true
		p.scfg.ServerName = "srv.example"
		p.scfg.CurvePreferences = curvesS(ec.CCurves)
		if ec.Resume {
			p.scfg.ClientSessionCache = stdtls.NewLRUClientSessionCache(4)
		} else {
			p.zcfg.SessionTicketsDisabled = true
		}
	}
	return p, nil
}

// connect runs one connection of the pair.
func (p *stdPair) connect() *connResult {
	r := &connResult{}
	zl0, sl0 := len(p.zLog.Lines()), len(p.sLog.Lines())
	zr0, sr0 := len(p.zRnd.snapshot()), len(p.sRnd.snapshot())
	cp, sp, n := tlsx.NewPipe()
	var cli, srv endpoint
	var zc *tls.Conn
	var sc *stdtls.Conn
	if p.ec.ZClient {
		zc, sc = tls.Client(cp, p.zcfg), stdtls.Server(sp, p.scfg)
		cli, srv = zc, sc
	} else {
		sc, zc = stdtls.Client(cp, p.scfg), tls.Server(sp, p.zcfg)
		cli, srv = sc, zc
	}
	var wg sync.WaitGroup
	var cErr, sErr error
	var mu sync.Mutex
	run := func(e endpoint, party int, out *error) {
		defer wg.Done()
		var err error
		if pn, msg, site := ev.Try(func() { err = e.Handshake() }); pn {
			mu.Lock()
			r.panicked = msg + " @ " + site
			mu.Unlock()
			e.Close()
			return
		}
		*out = err
		if err != nil {
			e.Close()
			return
		}
		n.SetIdle(party, true)
	}
	wg.Add(2)
	go run(srv, 1, &sErr)
	run(cli, 0, &cErr)
	wg.Wait()
	if cErr != nil {
		r.cErr = cErr.Error()
	}
	if sErr != nil {
		r.sErr = sErr.Error()
	}
	r.done = cErr == nil && sErr == nil && r.panicked == ""
	if r.done {
		// data phase, one party acting at a time (the other is declared idle, so a
		// read that can never be satisfied is detected structurally). It also makes
		// the client consume the NewSessionTicket messages.
		step := func(party int, f func() error) bool {
			n.SetIdle(party, false)
			var err error
			if pn, msg, site := ev.Try(func() { err = f() }); pn {
				r.dataErr = "panic: " + msg + " @ " + site
			} else if err != nil {
				r.dataErr = err.Error()
			}
			n.SetIdle(party, true)
			return r.dataErr == ""
		}
		buf := make([]byte, 4)
		_ = step(0, func() error { _, e := cli.Write([]byte("ping")); return e }) &&
			step(1, func() error { _, e := io.ReadFull(srv, buf); return e }) &&
			step(1, func() error { _, e := srv.Write([]byte("pong")); return e }) &&
			step(0, func() error { _, e := io.ReadFull(cli, buf); return e })
		zs := zc.ConnectionState()
		ss := sc.ConnectionState()
		r.zResumed, r.sResum = zs.DidResume, ss.DidResume
		r.zEKM = func(l string, c []byte, k int) ([]byte, error) { return zs.ExportKeyingMaterial(l, c, k) }
		r.sEKM = func(l string, c []byte, k int) ([]byte, error) { return ss.ExportKeyingMaterial(l, c, k) }
	}
	cli.Close()
	srv.Close()
	n.SetIdle(0, false)
	n.SetIdle(1, false)
	r.stalled = n.Stalled
	r.c2s, r.s2c = n.Stream(tlsx.C2S), n.Stream(tlsx.S2C)
	r.zLog, r.sLog = p.zLog.Lines()[zl0:], p.sLog.Lines()[sl0:]
	r.zRand, r.sRand = p.zRnd.snapshot()[zr0:], p.sRnd.snapshot()[sr0:]
	return r
}

// ------------------------------------------------------------------ wire parsing

type brd struct {
	b  []byte
	ok bool
}

func (r *brd) take(n int) []byte {
	if !r.ok || n < 0 || len(r.b) < n {
		r.ok = false
		return nil
	}
	o := r.b[:n]
	r.b = r.b[n:]
	return o
}
func (r *brd) u8() int {
	if b := r.take(1); b != nil {
		return int(b[0])
	}
	return 0
}
func (r *brd) u16() int {
	if b := r.take(2); b != nil {
		return int(b[0])<<8 | int(b[1])
	}
	return 0
}
func (r *brd) u24() int {
	if b := r.take(3); b != nil {
		return int(b[0])<<16 | int(b[1])<<8 | int(b[2])
	}
	return 0
}

type helloInfo struct {
	raw       []byte // whole message incl. header
	random    []byte
	suite     uint16            // ServerHello
	version   uint16            // ServerHello: supported_versions selection or legacy
	shares    map[uint16][]byte // key_share entries: group -> key exchange
	group     uint16            // ServerHello / HelloRetryRequest: the (selected) group
	hrr       bool
	pskIDs    [][]byte // ClientHello pre_shared_key identities
	binders   [][]byte // ClientHello pre_shared_key binders
	truncated []byte   // ClientHello up to (excluding) the binders list (RFC 8446 §4.2.11.2)
	pskChosen int      // ServerHello pre_shared_key selected identity, -1 none
}

func parseHello(msg []byte) (*helloInfo, bool) {
	if len(msg) < 4 {
		return nil, false
	}
	server := msg[0] == 2
	h := &helloInfo{raw: msg, shares: map[uint16][]byte{}, pskChosen: -1}
	r := &brd{b: msg[4:], ok: true}
	h.version = uint16(r.u16())
	h.random = r.take(32)
	r.take(r.u8())
	if server {
		h.suite = uint16(r.u16())
		r.u8()
	} else {
		r.take(r.u16())
		r.take(r.u8())
	}
	if !r.ok {
		return nil, false
	}
	h.hrr = server && bytes.Equal(h.random, hrrRandom13)
	if len(r.b) == 0 {
		return h, true
	}
	ext := &brd{b: r.take(r.u16()), ok: r.ok}
	for ext.ok && len(ext.b) > 0 {
		typ := ext.u16()
		d := &brd{b: ext.take(ext.u16()), ok: ext.ok}
		if !d.ok {
			return nil, false
		}
		switch {
		case typ == 43 && server:
			h.version = uint16(d.u16())
		case typ == 51 && server:
			h.group = uint16(d.u16())
			if !h.hrr {
				h.shares[h.group] = d.take(d.u16())
			}
		case typ == 51:
			l := &brd{b: d.take(d.u16()), ok: d.ok}
			for l.ok && len(l.b) > 0 {
				g := uint16(l.u16())
				k := l.take(l.u16())
				if l.ok {
					h.shares[g] = k
				}
			}
		case typ == 41 && server:
			h.pskChosen = d.u16()
		case typ == 41:
			l := &brd{b: d.take(d.u16()), ok: d.ok}
			for l.ok && len(l.b) > 0 {
				id := l.take(l.u16())
				l.take(4)
				if l.ok {
					h.pskIDs = append(h.pskIDs, id)
				}
			}
			bl := d.u16()
			bs := &brd{b: d.take(bl), ok: d.ok}
			for bs.ok && len(bs.b) > 0 {
				if b := bs.take(bs.u8()); bs.ok {
					h.binders = append(h.binders, b)
				}
			}
			if d.ok && len(d.b) == 0 && len(ext.b) == 0 && len(msg) >= 2+bl {
				h.truncated = msg[:len(msg)-2-bl] // pre_shared_key is the last extension
			}
		}
	}
	return h, true
}

// RFC 8446 §4.1.3: SHA-256("HelloRetryRequest").
var hrrRandom13, _ = hex.DecodeString("CF21AD74E59A6111BE1D8C021E65B891C2A211167ABB8C5E079E09E2C8A8339C")

// splitMessages cuts a handshake byte stream into messages (with headers);
// rest is an incomplete tail.
func splitMessages(hs []byte) (msgs [][]byte, rest []byte) {
	for len(hs) >= 4 {
		n := int(hs[1])<<16 | int(hs[2])<<8 | int(hs[3])
		if len(hs) < 4+n {
			break
		}
		msgs = append(msgs, hs[:4+n])
		hs = hs[4+n:]
	}
	return msgs, hs
}

// ------------------------------------------------------------------ TLS 1.3 record layer (RFC 8446 §5.2, §5.3)

type aead13 struct {
	a   cipher.AEAD
	iv  []byte
	seq uint64
}

func newAEAD13(suite uint16, key, iv []byte) (*aead13, error) {
	var a cipher.AEAD
	var err error
	switch suite {
	case 0x1301, 0x1302:
		var b cipher.Block
		if b, err = aes.NewCipher(key); err == nil {
			a, err = cipher.NewGCM(b)
		}
	case 0x1303:
		a, err = chacha20poly1305.New(key)
	default:
		err = fmt.Errorf("suite %04x", suite)
	}
	if err != nil {
		return nil, err
	}
	return &aead13{a: a, iv: iv}, nil
}

// open: TLSCiphertext -> (content type, content). The per-record nonce is the
// 64-bit sequence number, left-padded, XORed into the write IV; the additional
// data is the record header.
func (s *aead13) open(rec tlsx.Record) (byte, []byte, bool) {
	nonce := append([]byte(nil), s.iv...)
	for i := 0; i < 8; i++ {
		nonce[len(nonce)-1-i] ^= byte(s.seq >> (8 * i))
	}
	hdr := []byte{rec.Type, byte(rec.Vers >> 8), byte(rec.Vers), byte(rec.Len >> 8), byte(rec.Len)}
	pt, err := s.a.Open(nil, nonce, rec.Payload, hdr)
	if err != nil {
		return 0, nil, false
	}
	s.seq++
	for len(pt) > 0 && pt[len(pt)-1] == 0 {
		pt = pt[:len(pt)-1]
	}
	if len(pt) == 0 {
		return 0, nil, false
	}
	return pt[len(pt)-1], pt[:len(pt)-1], true
}

// ------------------------------------------------------------------ shared secret recovery

// ecdhShared: find, in the recorded Config.Rand output of either side, the
// private key whose public key is one of the two key exchange values on the
// wire, and return the ECDH result with the peer's value.
func ecdhShared(group uint16, pubC, pubS []byte, reads ...[][]byte) ([]byte, string) {
	var curve ecdh.Curve
	switch group {
	case 29:
		curve = ecdh.X25519()
	case 23:
		curve = ecdh.P256()
	default:
		return nil, "group not handled by the probe"
	}
	const sz = 32
	try := func(k []byte) []byte {
		priv, err := curve.NewPrivateKey(k)
		if err != nil {
			return nil
		}
		pub := priv.PublicKey().Bytes()
		var peer []byte
		switch {
		case bytes.Equal(pub, pubC):
			peer = pubS
		case bytes.Equal(pub, pubS):
			peer = pubC
		default:
			return nil
		}
		pk, err := curve.NewPublicKey(peer)
		if err != nil {
			return nil
		}
		z, err := priv.ECDH(pk)
		if err != nil {
			return nil
		}
		return z
	}
	for _, rs := range reads {
		for _, rd := range rs {
			for off := 0; off+sz <= len(rd); off++ {
				if off > 0 && len(rd) > 64 {
					break // windows inside long reads (signature nonces etc.) are not key material
				}
				k := rd[off : off+sz]
				if z := try(k); z != nil {
					return z, ""
				}
				if group == 23 {
					// crypto/elliptic.GenerateKey flips one bit pattern of the candidate scalar
					k2 := append([]byte(nil), k...)
					k2[1] ^= 0x42
					if z := try(k2); z != nil {
						return z, ""
					}
				}
			}
		}
	}
	return nil, "no recorded random read yields a key share of this connection"
}

// ------------------------------------------------------------------ analysis of one TLS 1.3 connection

type ticket13 struct{ nonce, label []byte }

// secrets13 in key schedule order.
var labels13Order = []string{"CLIENT_HANDSHAKE_TRAFFIC_SECRET", "SERVER_HANDSHAKE_TRAFFIC_SECRET", "CLIENT_TRAFFIC_SECRET_0", "SERVER_TRAFFIC_SECRET_0"}

type analysis13 struct {
	suite      uint16
	h          hashFn
	hname      string
	keyLen     int
	psk        []byte
	shared     []byte
	trSH       []byte // ClientHello..ServerHello (RFC 8446 §4.4.1 form after a HelloRetryRequest)
	trSF       []byte // ..server Finished
	trCF       []byte // ..client Finished
	trCV       []byte // ..server CertificateVerify (or EncryptedExtensions under PSK): server Finished context
	serverFin  []byte // verify_data as sent
	clientFin  []byte
	secrets    map[string][]byte // key log label -> oracle value
	master     []byte
	exp, res   []byte
	tickets    []ticket13
	binderSent []byte // PSK binder of the (last) ClientHello for a ticket of the previous connection
	binderWant []byte // RFC 8446 §4.2.11.2 value
	clientRand []byte
	hrr        bool
	usedPSK    bool
	notes      []string
	stop       string // why the oracle could not go further ("" = complete)
}

// schedule13 computes, with HKDF-Expand-Label implementation x, every secret the
// transcripts known so far allow (RFC 8446 §7.1).
func (a *analysis13) schedule13(x expandFn) (sec map[string][]byte, master, exp, res []byte) {
	sec = map[string][]byte{}
	h := a.h
	early := oExtract13(h, a.psk, nil)
	d1, _ := oDeriveSecret(x, h, early, "derived", nil)
	hs := oExtract13(h, a.shared, d1)
	if a.trSH == nil {
		return
	}
	sec[labels13Order[0]], _ = oDeriveSecret(x, h, hs, "c hs traffic", a.trSH)
	sec[labels13Order[1]], _ = oDeriveSecret(x, h, hs, "s hs traffic", a.trSH)
	d2, _ := oDeriveSecret(x, h, hs, "derived", nil)
	master = oExtract13(h, nil, d2)
	if a.trSF == nil {
		return
	}
	sec[labels13Order[2]], _ = oDeriveSecret(x, h, master, "c ap traffic", a.trSF)
	sec[labels13Order[3]], _ = oDeriveSecret(x, h, master, "s ap traffic", a.trSF)
	exp, _ = oDeriveSecret(x, h, master, "exp master", a.trSF)
	if a.trCF != nil {
		res, _ = oDeriveSecret(x, h, master, "res master", a.trCF)
	}
	return
}

func (a *analysis13) exporter(x expandFn, exp []byte, label string, context []byte, n int) ([]byte, error) {
	s, err := oDeriveSecret(x, a.h, exp, label, nil)
	if err != nil {
		return nil, err
	}
	return x(s, "exporter", digest(a.h, context), n)
}

// analyze13 reconstructs the key schedule of a TLS 1.3 connection from the wire.
// prev: the analysis of the connection that issued the tickets (resumption).
func analyze13(r *connResult, prev *analysis13) *analysis13 {
	a := &analysis13{}
	fail := func(f string, v ...any) *analysis13 { a.stop = fmt.Sprintf(f, v...); return a }
	// ---- plaintext hellos
	var cPlain, sPlain []byte
	cRecs, sRecs := tlsx.ParseRecords(r.c2s), tlsx.ParseRecords(r.s2c)
	ci, si := 0, 0
	for ; ci < len(cRecs) && cRecs[ci].Type != 23; ci++ {
		if cRecs[ci].Type == 22 {
			cPlain = append(cPlain, cRecs[ci].Payload...)
		} else if cRecs[ci].Type == 21 {
			break // a plaintext alert ends the client's plaintext phase
		}
	}
	for ; si < len(sRecs) && sRecs[si].Type != 23; si++ {
		if sRecs[si].Type == 22 {
			sPlain = append(sPlain, sRecs[si].Payload...)
		} else if sRecs[si].Type == 21 {
			break
		}
	}
	cm, _ := splitMessages(cPlain)
	sm, _ := splitMessages(sPlain)
	if len(cm) == 0 {
		return fail("no plaintext ClientHello")
	}
	var chs, shs []*helloInfo
	for _, m := range cm {
		if h, ok := parseHello(m); ok && m[0] == 1 {
			chs = append(chs, h)
		}
	}
	for _, m := range sm {
		if h, ok := parseHello(m); ok && m[0] == 2 {
			shs = append(shs, h)
		}
	}
	// ---- PSK binder of a resuming ClientHello (RFC 8446 §4.2.11.2): needs only the
	// previous connection and the ClientHello(s)
	if n := len(chs); n > 0 && prev != nil && prev.res != nil && chs[n-1].truncated != nil {
		last := chs[n-1]
		px := oExpandOf(prev.h)
		for idx, id := range last.pskIDs {
			for _, t := range prev.tickets {
				if !bytes.Equal(t.label, id) || idx >= len(last.binders) || a.binderSent != nil {
					continue
				}
				psk, _ := px(prev.res, "resumption", t.nonce, prev.h().Size())
				early := oExtract13(prev.h, psk, nil)
				bk, _ := oDeriveSecret(px, prev.h, early, "res binder", nil)
				tr := last.truncated
				if n == 2 && len(shs) >= 1 && shs[0].hrr {
					tr = cat([]byte{254, 0, 0, byte(prev.h().Size())}, digest(prev.h, chs[0].raw), shs[0].raw, last.truncated)
				}
				a.binderWant, _ = oFinished13(px, prev.h, bk, tr)
				a.binderSent = last.binders[idx]
			}
		}
	}
	if len(chs) == 0 || len(shs) == 0 || len(chs) != len(shs) {
		return fail("unexpected hello sequence (%d ClientHello, %d ServerHello)", len(chs), len(shs))
	}
	ch, sh := chs[len(chs)-1], shs[len(shs)-1]
	if sh.hrr || sh.version != 0x0304 {
		return fail("no TLS 1.3 ServerHello")
	}
	p, ok := rfcSuites13[sh.suite]
	if !ok {
		return fail("suite %04x unknown to the oracle", sh.suite)
	}
	a.suite, a.hname, a.h, a.keyLen = sh.suite, p.hash, hashByName(p.hash), p.keyLen
	a.clientRand = chs[0].random
	x := oExpandOf(a.h)
	// ---- transcript up to ServerHello (RFC 8446 §4.4.1)
	if len(chs) == 2 {
		if !shs[0].hrr {
			return fail("two ClientHellos without a HelloRetryRequest")
		}
		a.hrr = true
		hl := a.h().Size()
		a.trSH = cat([]byte{254, 0, 0, byte(hl)}, digest(a.h, chs[0].raw), shs[0].raw, chs[1].raw, sh.raw)
	} else {
		a.trSH = cat(ch.raw, sh.raw)
	}
	// ---- (EC)DHE
	pubS := sh.shares[sh.group]
	pubC := ch.shares[sh.group]
	if pubS == nil || pubC == nil {
		return fail("no key share pair for group %d", sh.group)
	}
	var why string
	if a.shared, why = ecdhShared(sh.group, pubC, pubS, r.zRand, r.sRand); a.shared == nil {
		return fail("shared secret not recoverable: %s", why)
	}
	// ---- PSK (RFC 8446 §4.2.11, §4.6.1)
	if sh.pskChosen >= 0 {
		a.usedPSK = true
		if prev == nil || prev.res == nil || sh.pskChosen >= len(ch.pskIDs) {
			return fail("PSK selected but the issuing connection was not reconstructed")
		}
		if prev.hname != a.hname {
			return fail("PSK of another hash")
		}
		for _, t := range prev.tickets {
			if bytes.Equal(t.label, ch.pskIDs[sh.pskChosen]) {
				a.psk, _ = x(prev.res, "resumption", t.nonce, a.h().Size())
			}
		}
		if a.psk == nil {
			return fail("the selected PSK identity is not a ticket of the first connection")
		}
	}
	sec, master, _, _ := a.schedule13(x)
	a.secrets, a.master = sec, master
	// ---- server flight under the server handshake traffic keys
	open := func(secret []byte) (*aead13, error) {
		k, iv, err := oTrafficKey(x, secret, a.keyLen, ivLen13)
		if err != nil {
			return nil, err
		}
		return newAEAD13(a.suite, k, iv)
	}
	flight := func(recs []tlsx.Record, pos *int, secret []byte, what string) (msgs [][]byte, err string) {
		st, e := open(secret)
		if e != nil {
			return nil, e.Error()
		}
		var buf []byte
		for *pos < len(recs) {
			rec := recs[*pos]
			if rec.Type == 20 {
				*pos++
				continue
			}
			if rec.Type != 23 {
				return msgs, fmt.Sprintf("%s: unexpected record type %d", what, rec.Type)
			}
			typ, content, ok := st.open(rec)
			if !ok {
				return msgs, what + ": record does not open under the oracle's traffic keys"
			}
			*pos++
			if typ == 21 {
				return msgs, what + ": alert inside the handshake flight"
			}
			if typ != 22 {
				return msgs, fmt.Sprintf("%s: inner content type %d", what, typ)
			}
			buf = append(buf, content...)
			var ms [][]byte
			ms, buf = splitMessages(buf)
			msgs = append(msgs, ms...)
			if n := len(msgs); n > 0 && msgs[n-1][0] == 20 && len(buf) == 0 {
				return msgs, ""
			}
		}
		return msgs, what + ": no Finished message"
	}
	sFlight, e := flight(sRecs, &si, sec[labels13Order[1]], "server flight")
	if e != "" {
		return fail("%s", e)
	}
	tr := append([]byte(nil), a.trSH...)
	for _, m := range sFlight {
		if m[0] == 20 {
			a.trCV = append([]byte(nil), tr...)
			a.serverFin = m[4:]
		}
		tr = append(tr, m...)
	}
	a.trSF = tr
	a.secrets, a.master, a.exp, _ = a.schedule13(x)
	// ---- client flight under the client handshake traffic keys
	cFlight, e := flight(cRecs, &ci, a.secrets[labels13Order[0]], "client flight")
	if e != "" {
		return fail("%s", e)
	}
	tr = append([]byte(nil), a.trSF...)
	for _, m := range cFlight {
		if m[0] == 20 {
			a.clientFin = m[4:]
			// the client Finished context is the transcript before it; with no client
			// certificate that is exactly trSF
		}
		tr = append(tr, m...)
	}
	if len(cFlight) != 1 {
		a.notes = append(a.notes, fmt.Sprintf("client flight has %d messages", len(cFlight)))
	}
	a.trCF = tr
	a.secrets, a.master, a.exp, a.res = a.schedule13(x)
	// ---- post-handshake records of the server: NewSessionTicket
	if st, err := open(a.secrets[labels13Order[3]]); err == nil {
		var buf []byte
		for ; si < len(sRecs); si++ {
			if sRecs[si].Type != 23 {
				continue
			}
			typ, content, ok := st.open(sRecs[si])
			if !ok {
				a.notes = append(a.notes, "a server application-phase record does not open under the oracle's keys")
				break
			}
			if typ != 22 {
				continue
			}
			buf = append(buf, content...)
			var ms [][]byte
			ms, buf = splitMessages(buf)
			for _, m := range ms {
				if m[0] != 4 {
					continue
				}
				b := &brd{b: m[4:], ok: true}
				b.take(8)
				nonce := b.take(b.u8())
				label := b.take(b.u16())
				if b.ok {
					a.tickets = append(a.tickets, ticket13{append([]byte(nil), nonce...), append([]byte(nil), label...)})
				}
			}
		}
	}
	return a
}

// ------------------------------------------------------------------ analysis of one TLS <= 1.2 ECDHE connection

type analysis12 struct {
	version        uint16
	suite          uint16
	class          prfClass
	cr, sr         []byte
	pms            []byte
	master         []byte
	stop           string
	sessionHashMsg []byte
}

func analyze12(r *connResult) *analysis12 {
	a := &analysis12{}
	fail := func(f string, v ...any) *analysis12 { a.stop = fmt.Sprintf(f, v...); return a }
	cmsgs, smsgs := plaintextHandshake(r.c2s), plaintextHandshake(r.s2c)
	if len(cmsgs) < 2 || len(smsgs) < 3 || cmsgs[0][0] != 1 || cmsgs[1][0] != 16 || smsgs[0][0] != 2 {
		return fail("handshake stopped before ClientKeyExchange")
	}
	ch, ok1 := parseHello(cmsgs[0])
	sh, ok2 := parseHello(smsgs[0])
	if !ok1 || !ok2 {
		return fail("hello messages do not parse")
	}
	a.version, a.suite, a.cr, a.sr = sh.version, sh.suite, ch.random, sh.random
	var known bool
	if a.class, known = oClass(a.version, a.suite); !known {
		return fail("suite %04x unknown to the oracle", a.suite)
	}
	var skx []byte
	for _, m := range smsgs {
		if m[0] == 12 {
			skx = m[4:]
		}
	}
	b := &brd{b: skx, ok: true}
	if b.u8() != 3 {
		return fail("ServerKeyExchange is not a named-curve ECDHE one")
	}
	group := uint16(b.u16())
	pubS := b.take(b.u8())
	c := &brd{b: cmsgs[1][4:], ok: true}
	pubC := c.take(c.u8())
	if !b.ok || !c.ok {
		return fail("key exchange messages do not parse")
	}
	var why string
	if a.pms, why = ecdhShared(group, pubC, pubS, r.zRand, r.sRand); a.pms == nil {
		return fail("shared secret not recoverable: %s", why)
	}
	a.master = oMaster(oPRFOf(a.class), a.pms, a.cr, a.sr)
	return a
}

// ------------------------------------------------------------------ the probe

func keyLine(lines []tlsx.KeyLine, label string, random []byte) []byte {
	for _, l := range lines {
		if l.Label == label && (random == nil || bytes.Equal(l.Random, random)) {
			return l.Secret
		}
	}
	return nil
}

type ekmPoint struct {
	ctx    []byte
	hasCtx bool
	n      int
}

func ekmPoints() []ekmPoint {
	var out []ekmPoint
	for _, cx := range []struct {
		b   []byte
		has bool
	}{{nil, false}, {[]byte{}, true}, {pat(1, 93), true}, {pat(255, 93), true}} {
		for _, n := range []int{1, 32, 255} {
			out = append(out, ekmPoint{cx.b, cx.has, n})
		}
	}
	return out
}

const stdEKMLabel = "EXPERIMENTAL-verif-c26"

func hx(b []byte) string {
	if b == nil {
		return "(none)"
	}
	return hex.EncodeToString(b)
}

func runStdProbe(c *ev.Ctx, col *collector, replay bool) {
	h := ev.Hist{}
	cases := stdCases()
	role := func(ec stdCase) string {
		if ec.ZClient {
			return "client"
		}
		return "server"
	}
	for i, ec := range cases {
		report := func(sig string, w stdWitness) {
			w.Spec.Fn, w.Case = "std-handshake", ec
			if replay {
				c.Violation(sig, w)
			} else {
				col.add(sig, int64(1)<<61|int64(i), w)
			}
		}
		pair, err := newStdPair(ec)
		if err != nil {
			c.Broken("std probe: cannot build the configurations of %s: %v", ec.Name, err)
		}
		var prev *analysis13
		nconn := 1
		if ec.Resume {
			nconn = 2
		}
		for k := 0; k < nconn; k++ {
			// every wait inside connect is structural; the timer only guards against a
			// harness defect and yields "no verdict", never a violation
			var r *connResult
			ch := make(chan *connResult, 1)
			go func() { ch <- pair.connect() }()
			select {
			case r = <-ch:
			case <-time.After(5 * time.Minute):
				h["std-handshake:no-verdict(connection did not terminate)"]++
				c.Incomplete(fmt.Sprintf("std probe %s connection %d: did not terminate within 5 minutes (no verdict)", ec.Name, k))
			}
			if r == nil {
				break
			}
			c.States.Add(1)
			c.Traces.Add(1)
			c.Transitions.Add(1)
			tag := fmt.Sprintf("std-handshake(TLS 1.3, zcrypto %s)", role(ec))
			if ec.Version <= verTLS12 {
				tag = fmt.Sprintf("std-handshake(TLS <=1.2, zcrypto %s)", role(ec))
			}
			if r.panicked != "" {
				h["std-handshake:panic"]++
				report(tag+": panic: "+ev.MsgClass(r.panicked), stdWitness{Connection: k, What: "panic", Detail: r.panicked})
				break
			}
			if !r.done {
				h["std-handshake:handshake-incomplete(partial comparison)"]++
				c.Incomplete(fmt.Sprintf("std probe %s connection %d: handshake did not complete (client: %q, server: %q, stalled=%v): only the key-log lines written so far are compared", ec.Name, k, r.cErr, r.sErr, r.stalled))
			} else if r.dataErr != "" {
				c.Incomplete(fmt.Sprintf("std probe %s connection %d: data phase failed: %s", ec.Name, k, r.dataErr))
			}
			if ec.Resume && k == 1 && r.done {
				if r.zResumed && r.sResum {
					h["std-handshake:second-connection-resumed"]++
				} else {
					h["std-handshake:second-connection-not-resumed(full handshake compared)"]++
					c.Incomplete(fmt.Sprintf("std probe %s: the second connection did not resume (zcrypto=%v, crypto/tls=%v)", ec.Name, r.zResumed, r.sResum))
				}
			}
			if ec.Version == 0x0304 {
				prev = probe13(c, h, ec, k, r, prev, tag, report)
			} else {
				probe12(c, h, ec, k, r, tag, report)
			}
			if !r.done {
				break
			}
		}
	}
	c.Merge(h)
}

func probe13(c *ev.Ctx, h ev.Hist, ec stdCase, k int, r *connResult, prev *analysis13, tag string, report func(string, stdWitness)) *analysis13 {
	a := analyze13(r, prev)
	c.Evaluations.Add(1)
	if a.stop != "" {
		h["std-handshake:TLS1.3:oracle-partial("+strings.SplitN(a.stop, ":", 2)[0]+")"]++
		if r.done {
			c.Incomplete(fmt.Sprintf("std probe %s connection %d: the oracle could not reconstruct the whole schedule from the wire (%s): crypto/tls is the only reference for the rest", ec.Name, k, a.stop))
		}
	} else {
		kind := "full"
		if a.hrr {
			kind = "hello-retry-request"
		}
		if a.usedPSK {
			kind = "psk"
		}
		h["std-handshake:TLS1.3:oracle-reconstructed-schedule-from-wire("+kind+")"]++
	}
	// PSK binder (RFC 8446 §4.2.11.2)
	if a.binderSent != nil {
		c.Evaluations.Add(1)
		ok := bytes.Equal(a.binderSent, a.binderWant)
		switch {
		case ec.ZClient && ok:
			h["std-handshake:TLS1.3:psk-binder-sent-by-zcrypto:match"]++
			c.Distinct.Add(1)
		case ec.ZClient:
			report(tag+": PSK binder in the ClientHello is not the RFC 8446 §4.2.11.2 value for the ticket offered",
				stdWitness{Connection: k, What: "pre_shared_key binder", Zcrypto: hx(a.binderSent), Oracle: hx(a.binderWant)})
		case !ok:
			c.Broken("std probe %s: oracle and crypto/tls disagree on the PSK binder (oracle %x, crypto/tls %x)", ec.Name, a.binderWant, a.binderSent)
		case strings.Contains(r.sErr, "invalid PSK binder"):
			report(tag+": the server rejects the RFC 8446 §4.2.11.2 PSK binder computed for its own ticket",
				stdWitness{Connection: k, What: "pre_shared_key binder", StdLib: hx(a.binderSent), Oracle: hx(a.binderWant), Detail: r.sErr})
		default:
			h["std-handshake:TLS1.3:psk-binder-accepted-by-zcrypto:oracle-confirms"]++
		}
	}
	if a.h == nil {
		return a
	}
	su := -1
	for _, s := range suites13 {
		if s.id == a.suite {
			su = s.idx
		}
	}
	// attribute: the same composition over zcrypto's own HKDF-Expand-Label
	var viaImpl map[string][]byte
	var viaExp []byte
	if su >= 0 && a.shared != nil {
		ev.Try(func() { viaImpl, _, viaExp, _ = a.schedule13(implExpand(su)) })
	}
	random := a.clientRand
	firstBad := ""
	for _, lb := range labels13Order {
		z, s, o := keyLine(r.zLog, lb, random), keyLine(r.sLog, lb, random), a.secrets[lb]
		c.Evaluations.Add(1)
		switch {
		case z == nil || (s == nil && o == nil):
			h["std-handshake:TLS1.3:"+lb+":no-verdict(line missing)"]++
			if r.done {
				c.Incomplete(fmt.Sprintf("std probe %s connection %d: no %s line to compare (zcrypto wrote=%v, crypto/tls wrote=%v)", ec.Name, k, lb, z != nil, s != nil))
			}
			continue
		case s != nil && o != nil && !bytes.Equal(s, o):
			c.Broken("std probe %s connection %d: oracle and crypto/tls disagree on %s (oracle %x, crypto/tls %x)", ec.Name, k, lb, o, s)
		}
		ref := s
		if ref == nil {
			ref = o
		}
		if bytes.Equal(z, ref) {
			refs := "crypto/tls"
			if s != nil && o != nil {
				refs = "crypto/tls+oracle"
			} else if s == nil {
				refs = "oracle"
			}
			h["std-handshake:TLS1.3:"+lb+":match("+refs+")"]++
			c.Distinct.Add(1)
			continue
		}
		h["std-handshake:TLS1.3:"+lb+":mismatch"]++
		if firstBad == "" {
			firstBad = lb
			sig := fmt.Sprintf("%s: %s in the key log is not the RFC 8446 §7.1 secret of this connection", tag, lb)
			if v := viaImpl[lb]; v != nil && bytes.Equal(v, z) && !bytes.Equal(v, ref) {
				sig = rootSigExpand(a.hname, diffKind(z, ref))
			}
			report(sig, stdWitness{Connection: k, What: lb, Zcrypto: hx(z), StdLib: hx(s), Oracle: hx(o),
				Detail: fmt.Sprintf("suite %04x, hello-retry-request=%v, psk=%v; oracle: %s", a.suite, a.hrr, a.usedPSK, orStr(a.stop, "complete"))})
		}
	}
	// Finished verify_data sent by the zcrypto side (RFC 8446 §4.4.4)
	if a.stop == "" {
		x := oExpandOf(a.h)
		type fin struct {
			who     string
			base    []byte
			context []byte
			sent    []byte
			mine    bool
		}
		for _, f := range []fin{{"server", a.secrets[labels13Order[1]], a.trCV, a.serverFin, !ec.ZClient}, {"client", a.secrets[labels13Order[0]], a.trSF, a.clientFin, ec.ZClient}} {
			if !f.mine || f.sent == nil || f.context == nil {
				continue
			}
			want, _ := oFinished13(x, a.h, f.base, f.context)
			c.Evaluations.Add(1)
			if bytes.Equal(want, f.sent) {
				h["std-handshake:TLS1.3:finished-verify-data-sent-by-zcrypto:match"]++
			} else if firstBad == "" {
				report(tag+": Finished verify_data sent by zcrypto is not HMAC(finished_key, Transcript-Hash) of RFC 8446 §4.4.4",
					stdWitness{Connection: k, What: f.who + " Finished", Zcrypto: hx(f.sent), Oracle: hx(want)})
			}
		}
	}
	// exporter (RFC 8446 §7.5)
	if r.done && r.zEKM != nil {
		x := oExpandOf(a.h)
		bad := false
		for _, pt := range ekmPoints() {
			var z, s, o []byte
			var ze, se error
			if pn, msg, site := ev.Try(func() { z, ze = r.zEKM(stdEKMLabel, pt.ctx, pt.n) }); pn {
				report(tag+": ExportKeyingMaterial: panic@"+site+": "+ev.MsgClass(msg), stdWitness{Connection: k, What: "ExportKeyingMaterial"})
				break
			}
			s, se = r.sEKM(stdEKMLabel, pt.ctx, pt.n)
			if a.exp != nil {
				o, _ = a.exporter(x, a.exp, stdEKMLabel, pt.ctx, pt.n)
			}
			c.Evaluations.Add(1)
			if se != nil && o == nil {
				h["std-handshake:TLS1.3:exporter:no-verdict"]++
				continue
			}
			if se == nil && o != nil && !bytes.Equal(s, o) {
				c.Broken("std probe %s: oracle and crypto/tls disagree on the exporter (context %d bytes, length %d)", ec.Name, len(pt.ctx), pt.n)
			}
			ref := o
			if ref == nil {
				ref = s
			}
			if ze == nil && bytes.Equal(z, ref) {
				h["std-handshake:TLS1.3:exporter:match"]++
				c.Distinct.Add(1)
				continue
			}
			h["std-handshake:TLS1.3:exporter:mismatch"]++
			if bad || firstBad != "" {
				continue
			}
			bad = true
			sig := tag + ": ExportKeyingMaterial is not the RFC 8446 §7.5 exporter value of this connection"
			if ze != nil {
				sig = tag + ": ExportKeyingMaterial failed: " + ev.MsgClass(ze.Error())
			} else if viaExp != nil && su >= 0 {
				if v, err := a.exporter(implExpand(su), viaExp, stdEKMLabel, pt.ctx, pt.n); err == nil && bytes.Equal(v, z) {
					sig = rootSigExpand(a.hname, diffKind(z, ref))
				}
			}
			report(sig, stdWitness{Connection: k, What: fmt.Sprintf("ExportKeyingMaterial(%q, context nil=%v len=%d, %d)", stdEKMLabel, !pt.hasCtx, len(pt.ctx), pt.n),
				Zcrypto: hx(z), StdLib: hx(s), Oracle: hx(o)})
		}
	}
	return a
}

func orStr(s, d string) string {
	if s == "" {
		return d
	}
	return s
}

func probe12(c *ev.Ctx, h ev.Hist, ec stdCase, k int, r *connResult, tag string, report func(string, stdWitness)) {
	a := analyze12(r)
	c.Evaluations.Add(1)
	vn := verName(ec.Version)
	if a.stop != "" {
		h["std-handshake:"+vn+":oracle-partial("+strings.SplitN(a.stop, ":", 2)[0]+")"]++
		if r.done {
			c.Incomplete(fmt.Sprintf("std probe %s: the oracle could not reconstruct the master secret from the wire (%s)", ec.Name, a.stop))
		}
	} else {
		h["std-handshake:"+vn+":oracle-reconstructed-master-secret-from-wire"]++
	}
	z, s, o := keyLine(r.zLog, "CLIENT_RANDOM", a.cr), keyLine(r.sLog, "CLIENT_RANDOM", a.cr), a.master
	if a.cr == nil {
		z, s = keyLine(r.zLog, "CLIENT_RANDOM", nil), keyLine(r.sLog, "CLIENT_RANDOM", nil)
	}
	if z == nil || (s == nil && o == nil) {
		h["std-handshake:"+vn+":CLIENT_RANDOM:no-verdict(line missing)"]++
		if r.done {
			c.Incomplete(fmt.Sprintf("std probe %s: no CLIENT_RANDOM line to compare", ec.Name))
		}
		return
	}
	if s != nil && o != nil && !bytes.Equal(s, o) {
		c.Broken("std probe %s: oracle and crypto/tls disagree on the master secret (oracle %x, crypto/tls %x)", ec.Name, o, s)
	}
	ref := s
	if ref == nil {
		ref = o
	}
	if !bytes.Equal(z, ref) {
		h["std-handshake:"+vn+":CLIENT_RANDOM:mismatch"]++
		sig := tag + ": master secret in the key log is not PRF(pre_master_secret, \"master secret\", randoms) of this connection"
		if a.pms != nil {
			for _, other := range allClasses {
				var via []byte
				ev.Try(func() { via = oMaster(implPRFDirect(other), a.pms, a.cr, a.sr) })
				if via != nil && bytes.Equal(z, via) && !bytes.Equal(via, ref) {
					if other == a.class {
						sig = rootSigPRF(a.class, diffKind(z, ref))
					} else {
						sig = sigSelection(spec{Version: a.version}, a.class)
					}
				}
			}
		}
		report(sig, stdWitness{Connection: k, What: "CLIENT_RANDOM", Zcrypto: hx(z), StdLib: hx(s), Oracle: hx(o), Detail: fmt.Sprintf("suite %04x (%s)", a.suite, a.class)})
		return
	}
	refs := "crypto/tls"
	if s != nil && o != nil {
		refs = "crypto/tls+oracle"
	}
	h["std-handshake:"+vn+":CLIENT_RANDOM:match("+refs+")"]++
	c.Distinct.Add(1)
	// exporter (RFC 5705) from the agreed master secret
	if !r.done || r.zEKM == nil || a.class == "" || a.sr == nil {
		return
	}
	p := oPRFOf(a.class)
	bad := false
	for _, pt := range ekmPoints() {
		var z, s []byte
		var ze, se error
		if pn, msg, site := ev.Try(func() { z, ze = r.zEKM(stdEKMLabel, pt.ctx, pt.n) }); pn {
			report(tag+": ExportKeyingMaterial: panic@"+site+": "+ev.MsgClass(msg), stdWitness{Connection: k, What: "ExportKeyingMaterial"})
			break
		}
		s, se = r.sEKM(stdEKMLabel, pt.ctx, pt.n)
		o, _ := oEKM(p, ref, a.cr, a.sr, stdEKMLabel, pt.ctx, pt.hasCtx, pt.n)
		c.Evaluations.Add(1)
		if se == nil && !bytes.Equal(s, o) {
			c.Broken("std probe %s: oracle and crypto/tls disagree on the RFC 5705 exporter (context nil=%v len=%d, length %d)", ec.Name, !pt.hasCtx, len(pt.ctx), pt.n)
		}
		if se != nil {
			h["std-handshake:"+vn+":exporter:crypto/tls-refuses(oracle only)"]++
		}
		if ze == nil && bytes.Equal(z, o) {
			h["std-handshake:"+vn+":exporter:match"]++
			c.Distinct.Add(1)
			continue
		}
		h["std-handshake:"+vn+":exporter:mismatch"]++
		if bad {
			continue
		}
		bad = true
		sig := tag + ": ExportKeyingMaterial is not the RFC 5705 §4 value for this connection's master secret and randoms"
		if ze != nil {
			sig = tag + ": ExportKeyingMaterial failed: " + ev.MsgClass(ze.Error())
		} else {
			var via []byte
			ev.Try(func() { via, _ = oEKM(implPRFDirect(a.class), ref, a.cr, a.sr, stdEKMLabel, pt.ctx, pt.hasCtx, pt.n) })
			if via != nil && bytes.Equal(via, z) {
				sig = rootSigPRF(a.class, diffKind(z, o))
			}
		}
		report(sig, stdWitness{Connection: k, What: fmt.Sprintf("ExportKeyingMaterial(%q, context nil=%v len=%d, %d)", stdEKMLabel, !pt.hasCtx, len(pt.ctx), pt.n),
			Zcrypto: hx(z), StdLib: hx(s), Oracle: hx(o)})
	}
}
