// Extended master secret (RFC 7627) probe.
//
// zcrypto has no function that derives the extended master secret, but it can
// offer the extension (ExtendedMasterSecretExtension in a
// ClientFingerprintConfiguration, or an ExternalClientHello carrying it). RFC
// 7627 §4/§5.3: once client and server have both sent the extension, the master
// secret of the session IS PRF(pre_master_secret, "extended master secret",
// session_hash)[0..47]. The probe runs real handshakes between a zcrypto client
// and the Go standard library's crypto/tls server over an in-memory pipe
// (RSA key exchange, so that the pre-master secret can be recovered from the
// wire with the server key), records the plaintext handshake messages, and
// compares the master secret zcrypto derived (its key log) with the oracle.
// The standard library's own master secret anchors the oracle for this case
// (disagreement between oracle and crypto/tls ⇒ the check is broken).
package main

import (
	"bufio"
	"bytes"
	"crypto/rand"
	stdrsa "crypto/rsa"
	stdtls "crypto/tls"
	stdx509 "crypto/x509"
	"crypto/x509/pkix"
	"encoding/hex"
	"fmt"
	"math/big"
	"net"
	"strings"
	"sync"
	"time"

	"github.com/zmap/zcrypto/tls"
	"verifmc/internal/ev"
	"verifmc/internal/fx"
	"verifmc/internal/tlsx"
)

type recConn struct {
	net.Conn
	mu      sync.Mutex
	written []byte // client → server
	read    []byte // server → client
}

func (r *recConn) Write(p []byte) (int, error) {
	n, err := r.Conn.Write(p)
	r.mu.Lock()
	r.written = append(r.written, p[:n]...)
	r.mu.Unlock()
	return n, err
}

func (r *recConn) Read(p []byte) (int, error) {
	n, err := r.Conn.Read(p)
	r.mu.Lock()
	r.read = append(r.read, p[:n]...)
	r.mu.Unlock()
	return n, err
}

// plaintextHandshake returns the handshake messages (with their 4-byte headers)
// carried by the records of one direction before its first ChangeCipherSpec.
func plaintextHandshake(stream []byte) (msgs [][]byte) {
	var hs []byte
	for len(stream) >= 5 {
		typ, n := stream[0], int(stream[3])<<8|int(stream[4])
		if len(stream) < 5+n {
			break
		}
		body := stream[5 : 5+n]
		stream = stream[5+n:]
		if typ == 20 { // change_cipher_spec: everything after is encrypted
			break
		}
		if typ == 22 {
			hs = append(hs, body...)
		}
	}
	for len(hs) >= 4 {
		n := int(hs[1])<<16 | int(hs[2])<<8 | int(hs[3])
		if len(hs) < 4+n {
			break
		}
		msgs = append(msgs, hs[:4+n])
		hs = hs[4+n:]
	}
	return
}

// serverHelloInfo: version, random, cipher suite and whether extension 23
// (extended_master_secret) is present.
func serverHelloInfo(m []byte) (vers uint16, random []byte, suite uint16, ems bool, ok bool) {
	if len(m) < 4+2+32+1 || m[0] != 2 {
		return
	}
	b := m[4:]
	vers = uint16(b[0])<<8 | uint16(b[1])
	random = b[2:34]
	b = b[34:]
	sl := int(b[0])
	if len(b) < 1+sl+3 {
		return
	}
	b = b[1+sl:]
	suite = uint16(b[0])<<8 | uint16(b[1])
	b = b[3:]
	ok = true
	if len(b) < 2 {
		return
	}
	el := int(b[0])<<8 | int(b[1])
	b = b[2:]
	if len(b) < el {
		return
	}
	b = b[:el]
	for len(b) >= 4 {
		t, l := uint16(b[0])<<8|uint16(b[1]), int(b[2])<<8|int(b[3])
		if len(b) < 4+l {
			return
		}
		if t == 23 {
			ems = true
		}
		b = b[4+l:]
	}
	return
}

func keyLogSecret(log string, label string) []byte {
	sc := bufio.NewScanner(strings.NewReader(log))
	for sc.Scan() {
		f := strings.Fields(sc.Text())
		if len(f) == 3 && f[0] == label {
			b, err := hex.DecodeString(f[2])
			if err == nil {
				return b
			}
		}
	}
	return nil
}

type lockedBuf struct {
	mu sync.Mutex
	b  bytes.Buffer
}

func (l *lockedBuf) Write(p []byte) (int, error) {
	l.mu.Lock()
	defer l.mu.Unlock()
	return l.b.Write(p)
}
func (l *lockedBuf) String() string { l.mu.Lock(); defer l.mu.Unlock(); return l.b.String() }

type emsCase struct {
	Name     string `json:"name"`
	Version  uint16 `json:"version"`
	Suite    uint16 `json:"suite"`
	OfferEMS bool   `json:"offer_extended_master_secret"`
	Via      string `json:"via"` // "fingerprint" | "external-hello"
}

type emsWitness struct {
	Spec            spec    `json:"spec"` // Fn = "ems-handshake" (routes --replay)
	Case            emsCase `json:"case"`
	ServerEchoedEMS bool    `json:"server_echoed_extended_master_secret"`
	PreMaster       string  `json:"pre_master_secret"`
	SessionHashOver string  `json:"session_hash_over"`
	ZcryptoMaster   string  `json:"zcrypto_master_secret"`
	WantMaster      string  `json:"rfc7627_master_secret"`
	PlainMaster     string  `json:"rfc5246_master_secret_without_ems"`
	ClientError     string  `json:"zcrypto_client_handshake_error"`
	ServerError     string  `json:"stdlib_server_handshake_error"`
}

func runEMSProbe(c *ev.Ctx, col *collector, replay bool) {
	key := fx.StdRSA("rsa2048")
	tmpl := &stdx509.Certificate{SerialNumber: big.NewInt(26), Subject: pkix.Name{CommonName: "c26.test"},
		NotBefore: fx.T0.Add(-time.Hour), NotAfter: fx.T0.Add(24 * 365 * 20 * time.Hour), DNSNames: []string{"c26.test"},
		KeyUsage: stdx509.KeyUsageKeyEncipherment | stdx509.KeyUsageDigitalSignature, ExtKeyUsage: []stdx509.ExtKeyUsage{stdx509.ExtKeyUsageServerAuth}}
	der, err := stdx509.CreateCertificate(rand.Reader, tmpl, tmpl, &key.PublicKey, key)
	if err != nil {
		c.Broken("ems probe: cannot create server certificate: %v", err)
	}
	cert := stdtls.Certificate{Certificate: [][]byte{der}, PrivateKey: key}

	var cases []emsCase
	for _, vs := range []struct {
		v uint16
		s uint16
	}{{verTLS12, 0x009C}, {verTLS12, 0x009D}, {verTLS12, 0x002F}, {verTLS11, 0x002F}, {verTLS10, 0x002F}} {
		for _, offer := range []bool{false, true} {
			for _, via := range []string{"fingerprint", "external-hello"} {
				cases = append(cases, emsCase{fmt.Sprintf("%s/0x%04x/offer=%v/%s", verName(vs.v), vs.s, offer, via), vs.v, vs.s, offer, via})
			}
		}
	}
	h := ev.Hist{}
	for i, ec := range cases {
		out, sig, w := emsOne(c, ec, cert, key)
		h["ems-handshake:"+out]++
		c.States.Add(1)
		c.Traces.Add(1)
		c.Transitions.Add(1)
		c.Evaluations.Add(1)
		if sig != "" {
			if replay {
				c.Violation(sig, w)
			} else {
				col.add(sig, int64(1)<<60|int64(i), w)
			}
		} else if strings.HasPrefix(out, "negotiated") {
			c.Distinct.Add(1)
		}
	}
	c.Merge(h)
}

func emsOne(c *ev.Ctx, ec emsCase, cert stdtls.Certificate, key *stdrsa.PrivateKey) (outcome, sig string, w emsWitness) {
	w.Spec.Fn, w.Case = "ems-handshake", ec
	// in-memory duplex with structural stall detection (internal/tlsx): no deadline,
	// no wall-clock wait; each side closes its end when its handshake fails.
	cp, sp, pn := tlsx.NewPipe()
	defer cp.Close()
	defer sp.Close()

	srvLog, cliLog := &lockedBuf{}, &lockedBuf{}
	srvCfg := &stdtls.Config{Certificates: []stdtls.Certificate{cert}, MinVersion: stdtls.VersionTLS10, MaxVersion: stdtls.VersionTLS12,
		CipherSuites: []uint16{ec.Suite}, KeyLogWriter: srvLog, SessionTicketsDisabled: true,
		Time: func() time.Time { return fx.T0 }}
	srv := stdtls.Server(sp, srvCfg)
	srvErr := make(chan error, 1)
	go func() {
		err := srv.Handshake()
		if err != nil {
			sp.Close()
		} else {
			pn.SetIdle(1, true)
		}
		srvErr <- err
	}()

	exts := []tls.ClientExtension{}
	if ec.OfferEMS {
		exts = append(exts, &tls.ExtendedMasterSecretExtension{})
	}
	cliCfg := &tls.Config{InsecureSkipVerify: true, KeyLogWriter: cliLog, Rand: fx.NewRand("c26-ems-" + ec.Name),
		Time: func() time.Time { return fx.T0 }, MinVersion: tls.VersionTLS10, MaxVersion: ec.Version}
	fp := &tls.ClientFingerprintConfiguration{HandshakeVersion: ec.Version, ClientRandom: pat(32, 99),
		CipherSuites: []uint16{ec.Suite}, CompressionMethods: []uint8{0}, Extensions: exts}
	if ec.Via == "fingerprint" {
		cliCfg.ClientFingerprintConfiguration = fp
	} else {
		// a raw ClientHello: handshake header, version, random, empty session id,
		// one suite, null compression, optional extensions block.
		body := []byte{byte(ec.Version >> 8), byte(ec.Version)}
		body = append(body, pat(32, 99)...)
		body = append(body, 0, 0, 2, byte(ec.Suite>>8), byte(ec.Suite), 1, 0)
		if ec.OfferEMS {
			body = append(body, 0, 4, 0, 23, 0, 0)
		}
		cliCfg.ExternalClientHello = append([]byte{1, byte(len(body) >> 16), byte(len(body) >> 8), byte(len(body))}, body...)
	}
	rc := &recConn{Conn: cp}
	cli := tls.Client(rc, cliCfg)
	var cliE error
	if p, msg, site := ev.Try(func() { cliE = cli.Handshake() }); p {
		return "client-panic", "ems-handshake: panic@" + site + ": " + ev.MsgClass(msg), w
	}
	if cliE != nil {
		cp.Close()
		w.ClientError = cliE.Error()
	} else {
		pn.SetIdle(0, true)
	}
	sE := <-srvErr // structural: the server completes, fails, or the transport detects the stall and closes
	if pn.Stalled {
		c.Incomplete("ems probe " + ec.Name + ": both endpoints blocked reading (no verdict)")
		return "no-verdict(stalled)", "", w
	}
	if sE != nil {
		w.ServerError = sE.Error()
	}

	// ---- reconstruct what was negotiated from the wire
	rc.mu.Lock()
	cmsgs, smsgs := plaintextHandshake(rc.written), plaintextHandshake(rc.read)
	rc.mu.Unlock()
	if len(cmsgs) < 2 || len(smsgs) < 3 || cmsgs[0][0] != 1 || cmsgs[1][0] != 16 {
		// the handshake did not get as far as ClientKeyExchange: nothing to compare
		c.Incomplete(fmt.Sprintf("ems probe %s: handshake stopped before ClientKeyExchange (client: %q, server: %q)", ec.Name, w.ClientError, w.ServerError))
		return "no-verdict(handshake stopped early)", "", w
	}
	vers, srvRandom, suite, echoed, ok := serverHelloInfo(smsgs[0])
	if !ok || vers != ec.Version || suite != ec.Suite {
		c.Incomplete(fmt.Sprintf("ems probe %s: unexpected ServerHello (version %04x suite %04x)", ec.Name, vers, suite))
		return "no-verdict(unexpected ServerHello)", "", w
	}
	w.ServerEchoedEMS = echoed
	class, known := oClass(vers, suite)
	if !known {
		return "no-verdict(suite unknown to oracle)", "", w
	}
	cke := cmsgs[1][4:]
	if len(cke) < 2 || int(cke[0])<<8|int(cke[1]) != len(cke)-2 {
		c.Broken("ems probe: cannot parse ClientKeyExchange")
	}
	pms, err := stdrsa.DecryptPKCS1v15(nil, key, cke[2:])
	if err != nil || len(pms) != 48 {
		c.Broken("ems probe: cannot recover the pre-master secret: %v", err)
	}
	clientRandom := cmsgs[0][6:38]
	var transcript []byte // ClientHello .. ClientKeyExchange, in order of transmission
	transcript = append(transcript, cmsgs[0]...)
	for _, m := range smsgs {
		transcript = append(transcript, m...)
	}
	transcript = append(transcript, cmsgs[1]...)
	plain := oMaster(oPRFOf(class), pms, clientRandom, srvRandom)
	want := plain
	if echoed {
		want = oExtendedMaster(oPRFOf(class), class, pms, transcript)
	}
	// anchor: the standard library derived the same secret as the oracle
	std := keyLogSecret(srvLog.String(), "CLIENT_RANDOM")
	if std == nil || !bytes.Equal(std, want) {
		c.Broken("ems probe %s: oracle and crypto/tls disagree on the master secret (oracle %x, crypto/tls %x, ems=%v)", ec.Name, want, std, echoed)
	}
	got := keyLogSecret(cliLog.String(), "CLIENT_RANDOM")
	w.PreMaster, w.ZcryptoMaster, w.WantMaster, w.PlainMaster = hex.EncodeToString(pms), hex.EncodeToString(got), hex.EncodeToString(want), hex.EncodeToString(plain)
	w.SessionHashOver = fmt.Sprintf("%d handshake messages, %d bytes (ClientHello..ClientKeyExchange)", 2+len(smsgs), len(transcript))
	if ec.OfferEMS && !echoed {
		c.Incomplete("ems probe " + ec.Name + ": the standard library server did not echo extended_master_secret")
	}
	if got == nil {
		c.Incomplete("ems probe " + ec.Name + ": zcrypto wrote no CLIENT_RANDOM key log line")
		return "no-verdict(no key log)", "", w
	}
	neg := "not-negotiated"
	if echoed {
		neg = "negotiated"
	}
	if bytes.Equal(got, want) {
		if cliE != nil || sE != nil {
			// right secret, handshake failed for another reason: not this property's business
			return neg + ":master-secret-matches,handshake-failed", "", w
		}
		return neg + ":master-secret-matches,handshake-completes", "", w
	}
	// attribute to a root cause already reported by the function-level grid:
	// zcrypto's own PRF (of this or of another class) composed per RFC 5246 §8.1
	for _, other := range allClasses {
		var via []byte
		ev.Try(func() { via = oMaster(implPRFDirect(other), pms, clientRandom, srvRandom) })
		if via != nil && bytes.Equal(got, via) && !bytes.Equal(via, plain) {
			if other == class {
				return neg + ":mismatch", rootSigPRF(class, diffKind(got, want)), w
			}
			return neg + ":mismatch", sigSelection(spec{Version: vers}, class), w
		}
	}
	if echoed && bytes.Equal(got, plain) {
		return neg + ":mismatch", "ems-handshake: extended_master_secret negotiated (offered by zcrypto, echoed by server) but the session master secret is the RFC 5246 §8.1 one, not RFC 7627 §4", w
	}
	return neg + ":mismatch", "ems-handshake: session master secret differs from the RFC derivation (extended_master_secret negotiated=" + fmt.Sprint(echoed) + ")", w
}
