// Reference implementation of the TLS key derivations, transcribed from the
// RFC texts (not from zcrypto, not from crypto/tls). Only crypto/hmac, the hash
// packages and (as a cross-check of the hand-written HKDF) crypto/hkdf are used.
package main

import (
	"crypto/hmac"
	"crypto/md5"
	"crypto/sha1"
	"crypto/sha256"
	"crypto/sha512"
	"errors"
	"hash"
)

type hashFn = func() hash.Hash

func hashByName(name string) hashFn {
	switch name {
	case "MD5":
		return md5.New
	case "SHA-1":
		return sha1.New
	case "SHA-256":
		return sha256.New
	case "SHA-384":
		return sha512.New384
	}
	panic("oracle: unknown hash " + name)
}

func digest(h hashFn, parts ...[]byte) []byte {
	x := h()
	for _, p := range parts {
		x.Write(p)
	}
	return x.Sum(nil)
}

// HMAC_hash(secret, part0 + part1 + ...)
func hmacSum(h hashFn, secret []byte, parts ...[]byte) []byte {
	m := hmac.New(h, secret)
	for _, p := range parts {
		m.Write(p)
	}
	return m.Sum(nil)
}

func cat(parts ...[]byte) []byte {
	var out []byte
	for _, p := range parts {
		out = append(out, p...)
	}
	return out
}

// RFC 2246 §5 / RFC 5246 §5:
//
//	P_hash(secret, seed) = HMAC_hash(secret, A(1) + seed) +
//	                       HMAC_hash(secret, A(2) + seed) + ...
//	A(0) = seed, A(i) = HMAC_hash(secret, A(i-1))
//
// iterated as often as necessary, surplus bytes of the last iteration discarded.
func oPHash(h hashFn, secret, seed []byte, n int) []byte {
	mac := hmacOf(h, secret) // HMAC_hash(secret, .)
	out := make([]byte, 0, n+64)
	a := seed // A(0)
	for len(out) < n {
		a = mac(a) // A(i)
		out = append(out, mac(a, seed)...)
	}
	return out[:n]
}

// hmacOf returns x -> HMAC_hash(secret, x0 + x1 + ...). One keyed HMAC object
// is reset for every evaluation (pure performance: hmac.New per block made the
// oracle several times slower than the code under test).
func hmacOf(h hashFn, secret []byte) func(parts ...[]byte) []byte {
	m := hmac.New(h, secret)
	return func(parts ...[]byte) []byte {
		m.Reset()
		for _, p := range parts {
			m.Write(p)
		}
		return m.Sum(nil)
	}
}

// RFC 2246 §5:
//
//	L_S = length in bytes of secret; L_S1 = L_S2 = ceil(L_S / 2);
//	S1 = first L_S1 bytes, S2 = last L_S2 bytes (sharing a byte if L_S is odd)
//	PRF(secret, label, seed) = P_MD5(S1, label + seed) XOR P_SHA-1(S2, label + seed)
func oSplit(secret []byte) (s1, s2 []byte) {
	ls := len(secret)
	half := ls / 2
	if ls%2 == 1 {
		half++ // ceil
	}
	return secret[:half], secret[ls-half:]
}

func oPRF10(secret, label, seed []byte, n int) []byte {
	s1, s2 := oSplit(secret)
	ls := cat(label, seed)
	a := oPHash(md5.New, s1, ls, n)
	b := oPHash(sha1.New, s2, ls, n)
	out := make([]byte, n)
	for i := range out {
		out[i] = a[i] ^ b[i]
	}
	return out
}

// RFC 5246 §5: PRF(secret, label, seed) = P_<hash>(secret, label + seed)
func oPRF12(h hashFn, secret, label, seed []byte, n int) []byte {
	return oPHash(h, secret, cat(label, seed), n)
}

// prfClass names the PRF of a connection: "prf10" (TLS 1.0 and 1.1),
// "prf12-SHA-256" or "prf12-SHA-384" (TLS 1.2, by cipher suite).
type prfClass string

const (
	classPRF10    prfClass = "prf10"
	classPRF12256 prfClass = "prf12-SHA-256"
	classPRF12384 prfClass = "prf12-SHA-384"
)

var allClasses = []prfClass{classPRF10, classPRF12256, classPRF12384}

func oPRF(c prfClass, secret, label, seed []byte, n int) []byte {
	switch c {
	case classPRF10:
		return oPRF10(secret, label, seed, n)
	case classPRF12256:
		return oPRF12(sha256.New, secret, label, seed, n)
	case classPRF12384:
		return oPRF12(sha512.New384, secret, label, seed, n)
	}
	panic("oracle: unknown PRF class " + string(c))
}

const (
	verTLS10 = 0x0301
	verTLS11 = 0x0302
	verTLS12 = 0x0303
)

// Cipher suites whose TLS 1.2 PRF is P_SHA384 (RFC 5288 §3, RFC 5289 §3.1/3.2,
// RFC 5487, RFC 5489); every other TLS 1.2 suite listed in rfcSuiteParams uses
// P_SHA256 (RFC 5246 §5, RFC 7905 §2).
var sha384Suites = map[uint16]bool{
	0x009D: true, 0x009F: true, 0x00A1: true, 0x00A3: true, 0x00A5: true, 0x00A7: true,
	0xC024: true, 0xC026: true, 0xC028: true, 0xC02A: true, 0xC02C: true, 0xC02E: true, 0xC030: true, 0xC032: true,
	0x00A9: true, 0x00AB: true, 0x00AD: true, 0x00AF: true, 0x00B1: true, 0x00B3: true, 0x00B5: true, 0x00B7: true, 0x00B9: true,
	0xC038: true, 0xC03B: true,
}

type suiteParams struct{ key, mac, iv int }

// (enc_key_length, mac_key_length, fixed_iv_length) from RFC 5246 App. C,
// RFC 5288 (GCM: 4-byte salt), RFC 5289, RFC 4492/8422, RFC 7905 (12-byte IV).
// Only ids listed here are known to the oracle; others are skipped, not judged.
var rfcSuiteParams = map[uint16]suiteParams{
	0x0005: {16, 20, 0}, 0x000A: {24, 20, 8}, 0x0013: {24, 20, 8}, 0x0016: {24, 20, 8},
	0x002F: {16, 20, 16}, 0x0032: {16, 20, 16}, 0x0033: {16, 20, 16},
	0x0035: {32, 20, 16}, 0x0038: {32, 20, 16}, 0x0039: {32, 20, 16},
	0x003C: {16, 32, 16}, 0x003D: {32, 32, 16}, 0x0040: {16, 32, 16},
	0x0066: {16, 20, 0}, 0x0067: {16, 32, 16}, 0x006A: {32, 32, 16}, 0x006B: {32, 32, 16},
	0x009C: {16, 0, 4}, 0x009D: {32, 0, 4}, 0x009E: {16, 0, 4}, 0x009F: {32, 0, 4},
	0x00A2: {16, 0, 4}, 0x00A3: {32, 0, 4},
	0xC007: {16, 20, 0}, 0xC008: {24, 20, 8}, 0xC009: {16, 20, 16}, 0xC00A: {32, 20, 16},
	0xC011: {16, 20, 0}, 0xC012: {24, 20, 8}, 0xC013: {16, 20, 16}, 0xC014: {32, 20, 16},
	0xC023: {16, 32, 16}, 0xC027: {16, 32, 16},
	0xC02B: {16, 0, 4}, 0xC02C: {32, 0, 4}, 0xC02F: {16, 0, 4}, 0xC030: {32, 0, 4},
	0xCCA8: {32, 0, 12}, 0xCCA9: {32, 0, 12}, 0xCCAA: {32, 0, 12},
}

// oClass: the PRF demanded for (version, suite). ok=false when the oracle does
// not know the suite id (then nothing is demanded for TLS 1.2).
func oClass(version uint16, suiteID uint16) (prfClass, bool) {
	switch version {
	case verTLS10, verTLS11:
		return classPRF10, true
	case verTLS12:
		if sha384Suites[suiteID] {
			return classPRF12384, true
		}
		if _, ok := rfcSuiteParams[suiteID]; ok {
			return classPRF12256, true
		}
		return "", false
	}
	panic("oracle: version")
}

// prfFn is "the PRF of the connection". The compositions below are written
// once from the RFC text; instantiated with the oracle PRF they give the
// expected bytes, instantiated with zcrypto's PRF they are only used to
// attribute a mismatch of a derived function to its root cause.
type prfFn func(secret, label, seed []byte, n int) []byte

func oPRFOf(c prfClass) prfFn {
	return func(secret, label, seed []byte, n int) []byte { return oPRF(c, secret, label, seed, n) }
}

// RFC 5246 §8.1 (same in RFC 2246 §8.1):
//
//	master_secret = PRF(pre_master_secret, "master secret",
//	                    ClientHello.random + ServerHello.random)[0..47]
func oMaster(p prfFn, pms, clientRandom, serverRandom []byte) []byte {
	return p(pms, []byte("master secret"), cat(clientRandom, serverRandom), 48)
}

// RFC 7627 §4:
//
//	master_secret = PRF(pre_master_secret, "extended master secret",
//	                    session_hash)[0..47]
//
// session_hash = Hash(handshake_messages) (ClientHello up to and including
// ClientKeyExchange); for TLS 1.2 the PRF hash, for TLS 1.0/1.1 MD5 + SHA-1
// concatenated as for the Finished computation.
func oExtendedMaster(p prfFn, c prfClass, pms, handshakeMessages []byte) []byte {
	return p(pms, []byte("extended master secret"), oSessionHash(c, handshakeMessages), 48)
}

func oSessionHash(c prfClass, handshakeMessages []byte) []byte {
	switch c {
	case classPRF10:
		return cat(digest(md5.New, handshakeMessages), digest(sha1.New, handshakeMessages))
	case classPRF12256:
		return digest(sha256.New, handshakeMessages)
	case classPRF12384:
		return digest(sha512.New384, handshakeMessages)
	}
	panic("oracle: class")
}

// RFC 5246 §6.3 (RFC 2246 §6.3):
//
//	key_block = PRF(master_secret, "key expansion",
//	                server_random + client_random);
//	partitioned in order: client_write_MAC_key, server_write_MAC_key,
//	client_write_key, server_write_key, client_write_IV, server_write_IV
func oKeys(p prfFn, ms, clientRandom, serverRandom []byte, macLen, keyLen, ivLen int) [6][]byte {
	kb := p(ms, []byte("key expansion"), cat(serverRandom, clientRandom), 2*macLen+2*keyLen+2*ivLen)
	var out [6][]byte
	lens := [6]int{macLen, macLen, keyLen, keyLen, ivLen, ivLen}
	off := 0
	for i, l := range lens {
		out[i] = kb[off : off+l]
		off += l
	}
	return out
}

var keyNames = [6]string{"client_write_MAC_key", "server_write_MAC_key", "client_write_key", "server_write_key", "client_write_IV", "server_write_IV"}

// RFC 5246 §7.4.9: verify_data = PRF(master_secret, finished_label,
// Hash(handshake_messages))[0..11]; RFC 2246 §7.4.9: PRF(master_secret,
// finished_label, MD5(handshake_messages) + SHA-1(handshake_messages))[0..11].
func oFinished(p prfFn, c prfClass, ms []byte, client bool, handshakeMessages []byte) []byte {
	label := "server finished"
	if client {
		label = "client finished"
	}
	return p(ms, []byte(label), oSessionHash(c, handshakeMessages), 12)
}

var reservedLabels = map[string]bool{"client finished": true, "server finished": true, "master secret": true, "key expansion": true}

var errReserved = errors.New("RFC 5705 §4: label is used by TLS itself and must not be exported")

// RFC 5705 §4:
//
//	PRF(master_secret, label, client_random + server_random)[length]            (no context)
//	PRF(master_secret, label, client_random + server_random +
//	                          context_value_length + context_value)[length]    (context; uint16 length)
func oEKM(p prfFn, ms, clientRandom, serverRandom []byte, label string, context []byte, hasContext bool, n int) ([]byte, error) {
	if reservedLabels[label] {
		return nil, errReserved
	}
	seed := cat(clientRandom, serverRandom)
	if hasContext {
		if len(context) > 0xffff {
			return nil, errors.New("context_value longer than 2^16-1")
		}
		seed = append(seed, byte(len(context)>>8), byte(len(context)))
		seed = append(seed, context...)
	}
	return p(ms, []byte(label), seed, n), nil
}

// ---------------------------------------------------------------- TLS 1.3

// RFC 5869 §2.2: PRK = HMAC-Hash(salt, IKM); absent salt = HashLen zeros.
func oHKDFExtract(h hashFn, salt, ikm []byte) []byte {
	if salt == nil {
		salt = make([]byte, h().Size())
	}
	return hmacSum(h, salt, ikm)
}

// RFC 5869 §2.3: T(0) = "", T(i) = HMAC-Hash(PRK, T(i-1) | info | i),
// OKM = first L octets of T(1) | T(2) | ...; L <= 255*HashLen.
func oHKDFExpand(h hashFn, prk, info []byte, n int) ([]byte, error) {
	hl := h().Size()
	if n > 255*hl {
		return nil, errors.New("RFC 5869: L > 255*HashLen")
	}
	if n == 0 {
		return []byte{}, nil
	}
	mac := hmacOf(h, prk)
	out := make([]byte, 0, n+hl)
	var t []byte
	for i := 1; len(out) < n; i++ {
		t = mac(t, info, []byte{byte(i)})
		out = append(out, t...)
	}
	return out[:n], nil
}

// RFC 8446 §7.1:
//
//	HKDF-Expand-Label(Secret, Label, Context, Length) = HKDF-Expand(Secret, HkdfLabel, Length)
//	struct { uint16 length = Length; opaque label<7..255> = "tls13 " + Label;
//	         opaque context<0..255> = Context; } HkdfLabel;
func oExpandLabel(h hashFn, secret []byte, label string, context []byte, n int) ([]byte, error) {
	full := "tls13 " + label
	if len(full) > 255 {
		return nil, errors.New("RFC 8446: label longer than 255")
	}
	if len(context) > 255 {
		return nil, errors.New("RFC 8446: context longer than 255")
	}
	if n < 0 || n > 0xffff {
		return nil, errors.New("RFC 8446: length does not fit uint16")
	}
	info := []byte{byte(n >> 8), byte(n), byte(len(full))}
	info = append(info, full...)
	info = append(info, byte(len(context)))
	info = append(info, context...)
	return oHKDFExpand(h, secret, info, n)
}

// expandFn is "HKDF-Expand-Label of the suite" (see prfFn for why the
// compositions are parametrised).
type expandFn func(secret []byte, label string, context []byte, n int) ([]byte, error)

func oExpandOf(h hashFn) expandFn {
	return func(secret []byte, label string, context []byte, n int) ([]byte, error) {
		return oExpandLabel(h, secret, label, context, n)
	}
}

// Derive-Secret(Secret, Label, Messages) =
//
//	HKDF-Expand-Label(Secret, Label, Transcript-Hash(Messages), Hash.length)
func oDeriveSecret(x expandFn, h hashFn, secret []byte, label string, messages []byte) ([]byte, error) {
	return x(secret, label, digest(h, messages), h().Size())
}

// RFC 8446 §7.1 key schedule step: HKDF-Extract(salt = current secret, IKM =
// new secret); "if a given secret is not available, then the 0-value consisting
// of a string of Hash.length bytes set to zeros is used"; a "0" salt is the same.
func oExtract13(h hashFn, newSecret, currentSecret []byte) []byte {
	if newSecret == nil {
		newSecret = make([]byte, h().Size())
	}
	if currentSecret == nil {
		currentSecret = make([]byte, h().Size())
	}
	return oHKDFExtract(h, currentSecret, newSecret)
}

// RFC 8446 §7.2: application_traffic_secret_N+1 =
//
//	HKDF-Expand-Label(application_traffic_secret_N, "traffic upd", "", Hash.length)
func oNextTrafficSecret(x expandFn, h hashFn, secret []byte) ([]byte, error) {
	return x(secret, "traffic upd", nil, h().Size())
}

// RFC 8446 §7.3: [sender]_write_key = HKDF-Expand-Label(Secret, "key", "", key_length)
//
//	[sender]_write_iv  = HKDF-Expand-Label(Secret, "iv", "", iv_length)
func oTrafficKey(x expandFn, secret []byte, keyLen, ivLen int) (key, iv []byte, err error) {
	if key, err = x(secret, "key", nil, keyLen); err != nil {
		return
	}
	iv, err = x(secret, "iv", nil, ivLen)
	return
}

// RFC 8446 §4.4.4: finished_key = HKDF-Expand-Label(BaseKey, "finished", "", Hash.length)
//
//	verify_data = HMAC(finished_key, Transcript-Hash(Handshake Context, ...))
func oFinished13(x expandFn, h hashFn, baseKey, messages []byte) ([]byte, error) {
	fk, err := x(baseKey, "finished", nil, h().Size())
	if err != nil {
		return nil, err
	}
	return hmacSum(h, fk, digest(h, messages)), nil
}

// RFC 8446 §7.5: TLS-Exporter(label, context_value, key_length) =
//
//	HKDF-Expand-Label(Derive-Secret(Secret, label, ""), "exporter", Hash(context_value), key_length)
//
// Secret = exporter_master_secret = Derive-Secret(Master Secret, "exp master", ClientHello...server Finished).
func oExporter13(x expandFn, h hashFn, masterSecret, messages []byte, label string, context []byte, n int) ([]byte, error) {
	ems, err := oDeriveSecret(x, h, masterSecret, "exp master", messages)
	if err != nil {
		return nil, err
	}
	s, err := oDeriveSecret(x, h, ems, label, nil)
	if err != nil {
		return nil, err
	}
	return x(s, "exporter", digest(h, context), n)
}

// RFC 8446 App. B.4 + §5.3: (hash, key_length); iv_length = 12 for all three.
type suite13Params struct {
	hash   string
	keyLen int
}

var rfcSuites13 = map[uint16]suite13Params{
	0x1301: {"SHA-256", 16}, // TLS_AES_128_GCM_SHA256
	0x1302: {"SHA-384", 32}, // TLS_AES_256_GCM_SHA384
	0x1303: {"SHA-256", 32}, // TLS_CHACHA20_POLY1305_SHA256
}

const ivLen13 = 12
