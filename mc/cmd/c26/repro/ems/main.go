// Reproducer for the C26 finding: zcrypto offers extended_master_secret
// (RFC 7627) but never derives the extended master secret.
//
//	cd /verif/mc && GOFLAGS=-mod=mod GOPROXY=off go run ./cmd/c26/repro/ems
//
// A zcrypto client whose ClientHello carries ExtendedMasterSecretExtension
// (declared implemented: CheckImplemented() == nil) talks to the Go standard
// library server, which echoes the extension. zcrypto then still derives
// PRF(pms, "master secret", randoms); the Finished check fails on both sides.
package main

import (
	"crypto/rand"
	"crypto/rsa"
	stdtls "crypto/tls"
	"crypto/x509"
	"crypto/x509/pkix"
	"fmt"
	"math/big"
	"net"
	"os"
	"time"

	"github.com/zmap/zcrypto/tls"
)

func handshake(cert stdtls.Certificate, offerEMS bool) (clientErr, serverErr error) {
	cp, sp := net.Pipe()
	defer cp.Close()
	defer sp.Close()
	cp.SetDeadline(time.Now().Add(10 * time.Second))
	sp.SetDeadline(time.Now().Add(10 * time.Second))
	srv := stdtls.Server(sp, &stdtls.Config{Certificates: []stdtls.Certificate{cert}, MaxVersion: stdtls.VersionTLS12})
	done := make(chan error, 1)
	go func() {
		err := srv.Handshake()
		if err != nil {
			sp.Close()
		}
		done <- err
	}()
	exts := []tls.ClientExtension{
		&tls.SupportedCurvesExtension{Curves: []tls.CurveID{tls.CurveP256}},
		&tls.PointFormatExtension{Formats: []uint8{0}},
		&tls.SignatureAlgorithmExtension{SignatureAndHashes: []uint16{0x0401}},
	}
	if offerEMS {
		exts = append(exts, &tls.ExtendedMasterSecretExtension{})
	}
	cli := tls.Client(cp, &tls.Config{InsecureSkipVerify: true, ClientFingerprintConfiguration: &tls.ClientFingerprintConfiguration{
		HandshakeVersion: tls.VersionTLS12, CipherSuites: []uint16{tls.TLS_ECDHE_RSA_WITH_AES_128_GCM_SHA256},
		CompressionMethods: []uint8{0}, Extensions: exts}})
	clientErr = cli.Handshake()
	if clientErr != nil {
		cp.Close()
	}
	return clientErr, <-done
}

func main() {
	key, err := rsa.GenerateKey(rand.Reader, 2048)
	if err != nil {
		panic(err)
	}
	tmpl := &x509.Certificate{SerialNumber: big.NewInt(1), Subject: pkix.Name{CommonName: "repro"},
		NotBefore: time.Now().Add(-time.Hour), NotAfter: time.Now().Add(time.Hour),
		KeyUsage: x509.KeyUsageDigitalSignature | x509.KeyUsageKeyEncipherment}
	der, err := x509.CreateCertificate(rand.Reader, tmpl, tmpl, &key.PublicKey, key)
	if err != nil {
		panic(err)
	}
	cert := stdtls.Certificate{Certificate: [][]byte{der}, PrivateKey: key}

	ce, se := handshake(cert, false)
	fmt.Printf("without extended_master_secret: client err=%v, server err=%v\n", ce, se)
	ce2, se2 := handshake(cert, true)
	fmt.Printf("with    extended_master_secret: client err=%v, server err=%v\n", ce2, se2)
	if ce == nil && se == nil && ce2 != nil {
		fmt.Println("REPRODUCED: offering extended_master_secret makes the handshake fail (master secret not derived per RFC 7627 §4)")
		os.Exit(1)
	}
	fmt.Println("not reproduced")
}
