// Start-up self-check of the oracle against published known-answer vectors.
// A failure here means the CHECK is broken (exit 2), never a verdict.
package main

import (
	"bytes"
	"crypto/hkdf"
	"crypto/sha256"
	"crypto/sha512"
	"encoding/hex"
	"fmt"
	"strings"
)

func unhex(s string) []byte {
	s = strings.Map(func(r rune) rune {
		if r == ' ' || r == '\n' || r == '\t' {
			return -1
		}
		return r
	}, s)
	b, err := hex.DecodeString(s)
	if err != nil {
		panic("kat: bad hex: " + err.Error())
	}
	return b
}

// TLS 1.0 vectors "generated from GnuTLS using gnutls-cli --insecure -d 9"
// (the vectors of crypto/tls and /repo/tls/prf_test.go; RSA_WITH_RC4_128_SHA:
// macLen 20, keyLen 16). EKM: label "label", context "context" / no context, 32 bytes.
var gnutlsVectors = []struct {
	pms, cr, sr, ms, cmac, smac, ckey, skey, ekmCtx, ekmNoCtx string
}{
	{
		"0302cac83ad4b1db3b9ab49ad05957de2a504a634a386fc600889321e1a971f57479466830ac3e6f468e87f5385fa0c5",
		"4ae66303755184a3917fcb44880605fcc53baa01912b22ed94473fc69cebd558",
		"4ae663020ec16e6bb5130be918cfcafd4d765979a3136a5d50c593446e4e44db",
		"3d851bab6e5556e959a16bc36d66cfae32f672bfa9ecdef6096cbb1b23472df1da63dbbd9827606413221d149ed08ceb",
		"805aaa19b3d2c0a0759a4b6c9959890e08480119",
		"2d22f9fe519c075c16448305ceee209fc24ad109",
		"d50b5771244f850cd8117a9ccafe2cf1",
		"e076e33206b30507a85c32855acd0919",
		"4d1bb6fc278c37d27aa6e2a13c2e079095d143272c2aa939da33d88c1c0cec22",
		"93fba89599b6321ae538e27c6548ceb8b46821864318f5190d64a375e5d69d41",
	},
	{
		"03023f7527316bc12cbcd69e4b9e8275d62c028f27e65c745cfcddc7ce01bd3570a111378b63848127f1c36e5f9e4890",
		"4ae66364b5ea56b20ce4e25555aed2d7e67f42788dd03f3fee4adae0459ab106",
		"4ae66363ab815cbf6a248b87d6b556184e945e9b97fbdf247858b0bdafacfa1c",
		"7d64be7c80c59b740200b4b9c26d0baaa1c5ae56705acbcf2307fe62beb4728c19392c83f20483801cce022c77645460",
		"97742ed60a0554ca13f04f97ee193177b971e3b0",
		"37068751700400e03a8477a5c7eec0813ab9e0dc",
		"207cddbc600d2a200abac6502053ee5c",
		"df3f94f6e1eacc753b815fe16055cd43",
		"2c9f8961a72b97cbe76553b5f954caf8294fc6360ef995ac1256fe9516d0ce7f",
		"274f19c10291d188857ad8878e2119f5aa437d4da556601cf1337aff23154016",
	},
	{
		"832d515f1d61eebb2be56ba0ef79879efb9b527504abb386fb4310ed5d0e3b1f220d3bb6b455033a2773e6d8bdf951d278a187482b400d45deb88a5d5a6bb7d6a7a1decc04eb9ef0642876cd4a82d374d3b6ff35f0351dc5d411104de431375355addc39bfb1f6329fb163b0bc298d658338930d07d313cd980a7e3d9196cac1",
		"4ae663b2ee389c0de147c509d8f18f5052afc4aaf9699efe8cb05ece883d3a5e",
		"4ae664d503fd4cff50cfc1fb8fc606580f87b0fcdac9554ba0e01d785bdf278e",
		"1aff2e7a2c4279d0126f57a65a77a8d9d0087cf2733366699bec27eb53d5740705a8574bb1acc2abbe90e44f0dd28d6c",
		"3c7647c93c1379a31a609542aa44e7f117a70085",
		"0d73102994be74a575a3ead8532590ca32a526d4",
		"ac7581b0b6c10d85bbd905ffbf36c65e",
		"ff07edde49682b45466bd2e39464b306",
		"678b0d43f607de35241dc7e9d1a7388a52c35033a1a0336d4d740060a6638fe2",
		"f3b4ac743f015ef21d79978297a53da3e579ee047133f38c234d829c0f907dab",
	},
}

// ClientHello of RFC 8448 §4 "Resumed 0-RTT Handshake" (512 octets), as used by
// /repo/tls/key_schedule_test.go for the "c e traffic" vector.
const rfc8448ClientHello0RTT = `01 00 01 fc 03 03 1b c3 ce b6 bb e3 9c ff
	93 83 55 b5 a5 0a db 6d b2 1b 7a 6a f6 49 d7 b4 bc 41 9d 78 76
	48 7d 95 00 00 06 13 01 13 03 13 02 01 00 01 cd 00 00 00 0b 00
	09 00 00 06 73 65 72 76 65 72 ff 01 00 01 00 00 0a 00 14 00 12
	00 1d 00 17 00 18 00 19 01 00 01 01 01 02 01 03 01 04 00 33 00
	26 00 24 00 1d 00 20 e4 ff b6 8a c0 5f 8d 96 c9 9d a2 66 98 34
	6c 6b e1 64 82 ba dd da fe 05 1a 66 b4 f1 8d 66 8f 0b 00 2a 00
	00 00 2b 00 03 02 03 04 00 0d 00 20 00 1e 04 03 05 03 06 03 02
	03 08 04 08 05 08 06 04 01 05 01 06 01 02 01 04 02 05 02 06 02
	02 02 00 2d 00 02 01 01 00 1c 00 02 40 01 00 15 00 57 00 00 00
	00 00 00 00 00 00 00 00 00 00 00 00 00 00 00 00 00 00 00 00 00
	00 00 00 00 00 00 00 00 00 00 00 00 00 00 00 00 00 00 00 00 00
	00 00 00 00 00 00 00 00 00 00 00 00 00 00 00 00 00 00 00 00 00
	00 00 00 00 00 00 00 00 00 00 00 00 00 00 00 00 00 00 00 00 00
	00 29 00 dd 00 b8 00 b2 2c 03 5d 82 93 59 ee 5f f7 af 4e c9 00
	00 00 00 26 2a 64 94 dc 48 6d 2c 8a 34 cb 33 fa 90 bf 1b 00 70
	ad 3c 49 88 83 c9 36 7c 09 a2 be 78 5a bc 55 cd 22 60 97 a3 a9
	82 11 72 83 f8 2a 03 a1 43 ef d3 ff 5d d3 6d 64 e8 61 be 7f d6
	1d 28 27 db 27 9c ce 14 50 77 d4 54 a3 66 4d 4e 6d a4 d2 9e e0
	37 25 a6 a4 da fc d0 fc 67 d2 ae a7 05 29 51 3e 3d a2 67 7f a5
	90 6c 5b 3f 7d 8f 92 f2 28 bd a4 0d da 72 14 70 f9 fb f2 97 b5
	ae a6 17 64 6f ac 5c 03 27 2e 97 07 27 c6 21 a7 91 41 ef 5f 7d
	e6 50 5e 5b fb c3 88 e9 33 43 69 40 93 93 4a e4 d3 57 fa d6 aa
	cb 00 21 20 3a dd 4f b2 d8 fd f8 22 a0 ca 3c f7 67 8e f5 e8 8d
	ae 99 01 41 c5 92 4d 57 bb 6f a3 1b 9e 5f 9d`

// selfCheck returns the list of failed known answers (empty = oracle anchored)
// and the number of known answers evaluated.
func selfCheck() (fails []string, n int) {
	eq := func(name string, got []byte, wantHex string) {
		n++
		if !bytes.Equal(got, unhex(wantHex)) {
			fails = append(fails, fmt.Sprintf("%s: got %x want %s", name, got, strings.ReplaceAll(wantHex, " ", "")))
		}
	}
	must := func(b []byte, err error) []byte {
		if err != nil {
			fails = append(fails, "unexpected oracle error: "+err.Error())
		}
		return b
	}

	// --- RFC 2246 §5 secret split (vectors of prf_test.go TestSplitPreMasterSecret)
	for _, v := range [][3]string{{"", "", ""}, {"00", "00", "00"}, {"0011", "00", "11"}, {"001122", "0011", "1122"}, {"00112233", "0011", "2233"}} {
		s1, s2 := oSplit(unhex(v[0]))
		eq("split("+v[0]+").S1", s1, v[1])
		eq("split("+v[0]+").S2", s2, v[2])
	}

	// --- TLS 1.0 PRF, master secret, key block, RFC 5705 exporter (GnuTLS vectors)
	p10 := oPRFOf(classPRF10)
	for i, v := range gnutlsVectors {
		cr, sr := unhex(v.cr), unhex(v.sr)
		ms := oMaster(p10, unhex(v.pms), cr, sr)
		eq(fmt.Sprintf("gnutls#%d master", i), ms, v.ms)
		k := oKeys(p10, ms, cr, sr, 20, 16, 0)
		eq(fmt.Sprintf("gnutls#%d clientMAC", i), k[0], v.cmac)
		eq(fmt.Sprintf("gnutls#%d serverMAC", i), k[1], v.smac)
		eq(fmt.Sprintf("gnutls#%d clientKey", i), k[2], v.ckey)
		eq(fmt.Sprintf("gnutls#%d serverKey", i), k[3], v.skey)
		eq(fmt.Sprintf("gnutls#%d ekm ctx", i), must(oEKM(p10, ms, cr, sr, "label", []byte("context"), true, 32)), v.ekmCtx)
		eq(fmt.Sprintf("gnutls#%d ekm noctx", i), must(oEKM(p10, ms, cr, sr, "label", nil, false, 32)), v.ekmNoCtx)
	}

	// --- TLS 1.2 PRF: the test vectors posted to the IETF TLS list
	// ("TLS 1.2 PRF test vectors", label "test label").
	eq("TLS1.2PRF-SHA256", oPRF(classPRF12256,
		unhex("9b be 43 6b a9 40 f0 17 b1 76 52 84 9a 71 db 35"), []byte("test label"),
		unhex("a0 ba 9f 93 6c da 31 18 27 a6 f7 96 ff d5 19 8c"), 100),
		`e3 f2 29 ba 72 7b e1 7b 8d 12 26 20 55 7c d4 53 c2 aa b2 1d
		 07 c3 d4 95 32 9b 52 d4 e6 1e db 5a 6b 30 17 91 e9 0d 35 c9
		 c9 a4 6b 4e 14 ba f9 af 0f a0 22 f7 07 7d ef 17 ab fd 37 97
		 c0 56 4b ab 4f bc 91 66 6e 9d ef 9b 97 fc e3 4f 79 67 89 ba
		 a4 80 82 d1 22 ee 42 c5 a7 2e 5a 51 10 ff f7 01 87 34 7b 66`)
	eq("TLS1.2PRF-SHA384", oPRF(classPRF12384,
		unhex("b8 0b 73 3d 6c ee fc dc 71 56 6e a4 8e 55 67 df"), []byte("test label"),
		unhex("cd 66 5c f6 a8 44 7d d6 ff 8b 27 55 5e db 74 65"), 148),
		`7b 0c 18 e9 ce d4 10 ed 18 04 f2 cf a3 4a 33 6a 1c 14 df fb
		 49 00 bb 5f d7 94 21 07 e8 1c 83 cd e9 ca 0f aa 60 be 9f e3
		 4f 82 b1 23 3c 91 46 a0 e5 34 cb 40 0f ed 27 00 88 4f 9d c2
		 36 f8 0e dd 8b fa 96 11 44 c9 e8 d7 92 ec a7 22 a7 b3 2f c3
		 d4 16 d4 73 eb c2 c5 fd 4a bf da d0 5d 91 84 25 9b 5b f8 cd
		 4d 90 fa 0d 31 e2 de c4 79 e4 f1 a2 60 66 f2 ee a9 a6 92 36
		 a3 e5 26 55 c9 e9 ae e6 91 c8 f3 a2 68 54 30 8d 5e aa 3b e8
		 5e 09 90 70 3d 73 e5 6f`)

	// --- RFC 5869 A.1 (HKDF-SHA256 test case 1)
	prk := oHKDFExtract(sha256.New, unhex("000102030405060708090a0b0c"), bytes.Repeat([]byte{0x0b}, 22))
	eq("RFC5869 A.1 PRK", prk, "077709362c2e32df0ddc3f0dc47bba6390b6c73bb50f9c3122ec844ad7c2b3e5")
	eq("RFC5869 A.1 OKM", must(oHKDFExpand(sha256.New, prk, unhex("f0f1f2f3f4f5f6f7f8f9"), 42)),
		"3cb25f25faacd57a90434f64d0362f2a2d2d0a90cf1a5a4c5db02d56ecc4c5bf34007208d5b887185865")

	// --- hand-written HKDF against the standard library's crypto/hkdf (both hashes,
	// every length 0..600 and the 255*HashLen edge)
	for _, h := range []hashFn{sha256.New, sha512.New384} {
		hl := h().Size()
		key := []byte("0123456789abcdef0123456789abcdef0123456789abcdef")
		lens := []int{255*hl - 1, 255 * hl}
		for l := 0; l <= 600; l++ {
			lens = append(lens, l)
		}
		for _, l := range lens {
			mine, err1 := oHKDFExpand(h, key, []byte("info"), l)
			std, err2 := hkdf.Expand(h, key, "info", l)
			n++
			if err1 != nil || err2 != nil || !bytes.Equal(mine, std) {
				fails = append(fails, fmt.Sprintf("HKDF-Expand hash size %d len %d: own and crypto/hkdf disagree (%v, %v)", hl, l, err1, err2))
				break
			}
		}
		if _, err := oHKDFExpand(h, key, nil, 255*hl+1); err == nil {
			fails = append(fails, "HKDF-Expand accepts L > 255*HashLen")
		}
		for _, salt := range [][]byte{nil, {}, []byte("salt"), bytes.Repeat([]byte{7}, 200)} {
			mine := oHKDFExtract(h, salt, []byte("ikm"))
			std, err := hkdf.Extract(h, []byte("ikm"), salt)
			n++
			if err != nil || !bytes.Equal(mine, std) {
				fails = append(fails, fmt.Sprintf("HKDF-Extract hash size %d salt len %d: own and crypto/hkdf disagree", hl, len(salt)))
			}
		}
	}

	// --- RFC 8448 §3 (Simple 1-RTT Handshake) and §4, TLS_AES_128_GCM_SHA256
	h := sha256.New
	x := oExpandOf(h)
	early := oExtract13(h, nil, nil)
	eq("RFC8448 early secret", early, "33ad0a1c607ec03b09e6cd9893680ce210adf300aa1f2660e1b22e10f170f92a")
	derived := must(oDeriveSecret(x, h, early, "derived", nil))
	eq("RFC8448 derived(early)", derived, "6f2615a108c702c5678f54fc9dbab69716c076189c48250cebeac3576c3611ba")
	hs := oExtract13(h, unhex("8bd4054fb55b9d63fdfbacf9f04b9f0d35e6d63f537563efd46272900f89492d"), derived)
	eq("RFC8448 handshake secret", hs, "1dc826e93606aa6fdc0aadc12f741b01046aa6b99f691ed221a9f0ca043fbeac")
	eq("RFC8448 master secret", oExtract13(h, nil, unhex("43de77e0c77713859a944db9db2590b53190a65b3ee2e4f12dd7a0bb7ce254b4")),
		"18df06843d13a08bf2a449844c5f8a478001bc4d4c627984d5a41da8d0402919")
	shts := unhex("b67b7d690cc16c4e75e54213cb2d37b4e9c912bcded9105d42befd59d391ad38")
	key, iv, err := oTrafficKey(x, shts, 16, 12)
	if err != nil {
		fails = append(fails, err.Error())
	}
	eq("RFC8448 server hs key", key, "3fce516009c21727d0f2e4e86ee403bc")
	eq("RFC8448 server hs iv", iv, "5d313eb2671276ee13000b30")
	eq("RFC8448 c e traffic", must(oDeriveSecret(x, h, unhex("9b2188e9b2fc6d64d71dc329900e20bb41915000f678aa839cbb797cb7d8332c"), "c e traffic", unhex(rfc8448ClientHello0RTT))),
		"3fbbe6a60deb66c30a32795aba0eff7eaa10105586e7be5c09678d63b6caab62")
	return fails, n
}
