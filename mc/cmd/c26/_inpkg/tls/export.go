package tls

// Thin accessors for check C26 (compiled into package tls through go build
// -overlay; never part of /repo). No logic here: every function forwards its
// arguments to exactly one unexported zcrypto function.

import (
	"crypto/sha256"
	"crypto/sha512"
	"hash"
)

// VerifC26Suite describes one entry of a TLS <= 1.2 cipher suite table.
type VerifC26Suite struct {
	Table  string // "cipherSuites" | "implementedCipherSuites"
	Index  int
	ID     uint16
	KeyLen int
	MacLen int
	IVLen  int
	SHA384 bool // suite.flags&suiteSHA384 != 0
}

// VerifC26Suite13 describes one entry of cipherSuitesTLS13.
type VerifC26Suite13 struct {
	Index    int
	ID       uint16
	KeyLen   int
	HashSize int
	HashName string
}

func verifC26Table(table string) []*cipherSuite {
	switch table {
	case "cipherSuites":
		return cipherSuites
	case "implementedCipherSuites":
		return implementedCipherSuites
	}
	panic("verif C26: unknown table " + table)
}

func VerifC26Suites() []VerifC26Suite {
	var out []VerifC26Suite
	for _, t := range []string{"cipherSuites", "implementedCipherSuites"} {
		for i, s := range verifC26Table(t) {
			out = append(out, VerifC26Suite{t, i, s.id, s.keyLen, s.macLen, s.ivLen, s.flags&suiteSHA384 != 0})
		}
	}
	return out
}

func VerifC26Suites13() []VerifC26Suite13 {
	var out []VerifC26Suite13
	for i, s := range cipherSuitesTLS13 {
		out = append(out, VerifC26Suite13{i, s.id, s.keyLen, s.hash.Size(), s.hash.String()})
	}
	return out
}

func VerifC26SplitPreMasterSecret(secret []byte) (s1, s2 []byte) {
	return splitPreMasterSecret(secret)
}

func VerifC26PRF10(result, secret, label, seed []byte) { prf10(result, secret, label, seed) }

// hashName: "SHA-256" | "SHA-384"
func VerifC26PRF12(hashName string, result, secret, label, seed []byte) {
	var h func() hash.Hash
	switch hashName {
	case "SHA-256":
		h = sha256.New
	case "SHA-384":
		h = sha512.New384
	default:
		panic("verif C26: unknown hash " + hashName)
	}
	prf12(h)(result, secret, label, seed)
}

// VerifC26PRFForVersion goes through prfForVersion (the selection the
// handshake uses).
func VerifC26PRFForVersion(version uint16, table string, index int, result, secret, label, seed []byte) {
	prfForVersion(version, verifC26Table(table)[index])(result, secret, label, seed)
}

func VerifC26MasterFromPreMasterSecret(version uint16, table string, index int, preMasterSecret, clientRandom, serverRandom []byte) []byte {
	return masterFromPreMasterSecret(version, verifC26Table(table)[index], preMasterSecret, clientRandom, serverRandom)
}

func VerifC26KeysFromMasterSecret(version uint16, table string, index int, masterSecret, clientRandom, serverRandom []byte, macLen, keyLen, ivLen int) (clientMAC, serverMAC, clientKey, serverKey, clientIV, serverIV []byte) {
	return keysFromMasterSecret(version, verifC26Table(table)[index], masterSecret, clientRandom, serverRandom, macLen, keyLen, ivLen)
}

// VerifC26Finished writes the chunks to a fresh finishedHash and returns
// Sum(), clientSum(ms), serverSum(ms).
func VerifC26Finished(version uint16, table string, index int, chunks [][]byte, masterSecret []byte) (sum, client, server []byte) {
	h := newFinishedHash(version, verifC26Table(table)[index])
	for _, c := range chunks {
		h.Write(c)
	}
	return h.Sum(), h.clientSum(masterSecret), h.serverSum(masterSecret)
}

func VerifC26EKM(version uint16, table string, index int, masterSecret, clientRandom, serverRandom []byte, label string, context []byte, length int) ([]byte, error) {
	return ekmFromMasterSecret(version, verifC26Table(table)[index], masterSecret, clientRandom, serverRandom)(label, context, length)
}

// ---- TLS 1.3 ----

func verifC26Transcript(c *cipherSuiteTLS13, chunks [][]byte, nilTranscript bool) hash.Hash {
	if nilTranscript {
		return nil
	}
	h := c.hash.New()
	for _, b := range chunks {
		h.Write(b)
	}
	return h
}

func VerifC26ExpandLabel(suite int, secret []byte, label string, context []byte, length int) []byte {
	return cipherSuitesTLS13[suite].expandLabel(secret, label, context, length)
}

func VerifC26DeriveSecret(suite int, secret []byte, label string, chunks [][]byte, nilTranscript bool) []byte {
	c := cipherSuitesTLS13[suite]
	return c.deriveSecret(secret, label, verifC26Transcript(c, chunks, nilTranscript))
}

func VerifC26Extract(suite int, newSecret, currentSecret []byte) []byte {
	return cipherSuitesTLS13[suite].extract(newSecret, currentSecret)
}

func VerifC26NextTrafficSecret(suite int, trafficSecret []byte) []byte {
	return cipherSuitesTLS13[suite].nextTrafficSecret(trafficSecret)
}

func VerifC26TrafficKey(suite int, trafficSecret []byte) (key, iv []byte) {
	return cipherSuitesTLS13[suite].trafficKey(trafficSecret)
}

func VerifC26Finished13(suite int, baseKey []byte, chunks [][]byte) []byte {
	c := cipherSuitesTLS13[suite]
	return c.finishedHash(baseKey, verifC26Transcript(c, chunks, false))
}

func VerifC26ExportKeyingMaterial13(suite int, masterSecret []byte, chunks [][]byte, nilTranscript bool, label string, context []byte, length int) ([]byte, error) {
	c := cipherSuitesTLS13[suite]
	return c.exportKeyingMaterial(masterSecret, verifC26Transcript(c, chunks, nilTranscript))(label, context, length)
}
