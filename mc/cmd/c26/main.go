// C26 — TLS key derivation matches the RFC definitions.
//
// Engine E2 (bounded-exhaustive input enumeration), differential against an
// independent transcription of RFC 2246 §5, RFC 5246 §5/§6.3/§7.4.9/§8.1,
// RFC 5705 §4, RFC 7627 §4 and RFC 8446 §4.4.4/§7 (oracle.go), itself anchored
// by published known-answer vectors at start-up (kat.go).
//
// Every case is a value of type spec; eval(spec) runs zcrypto's function
// (through the VerifC26* accessors compiled into package tls) and the oracle
// and classifies the result. A mismatch of a derived function that is fully
// explained by zcrypto's own PRF / HKDF-Expand-Label being wrong is reported
// under the signature of that root cause, so that one defect gives few
// signatures.

//go:debug tlsunsafeekm=1
package main

import (
	"bytes"
	"encoding/hex"
	"encoding/json"
	"errors"
	"fmt"
	"os"
	"runtime/debug"
	"runtime/pprof"
	"sort"
	"strings"
	"sync"

	"github.com/zmap/zcrypto/tls"
	"verifmc/internal/ev"
	"verifmc/internal/nohb"
)

// ------------------------------------------------------------------ cases

type hexb []byte

func (h hexb) MarshalJSON() ([]byte, error) { return json.Marshal(hex.EncodeToString(h)) }
func (h *hexb) UnmarshalJSON(b []byte) error {
	var s string
	if err := json.Unmarshal(b, &s); err != nil {
		return err
	}
	x, err := hex.DecodeString(s)
	*h = x
	return err
}

// spec fully describes one evaluation (it is also the replay witness).
type spec struct {
	Fn      string   `json:"fn"`
	Class   prfClass `json:"prf_class,omitempty"` // fn=prf: which PRF
	Version uint16   `json:"version,omitempty"`
	Table   string   `json:"table,omitempty"`
	Index   int      `json:"index,omitempty"`
	SuiteID uint16   `json:"suite_id,omitempty"`
	Suite13 int      `json:"suite13_index,omitempty"`

	Secret    hexb   `json:"secret"`               // secret / pre-master / master secret / base key / new secret
	SecretNil bool   `json:"secret_nil,omitempty"` // extract: newSecret == nil
	Label     string `json:"label"`
	Seed      hexb   `json:"seed"`               // seed / context / current secret
	SeedNil   bool   `json:"seed_nil,omitempty"` // context == nil (no context) / currentSecret == nil
	CR        hexb   `json:"client_random,omitempty"`
	SR        hexb   `json:"server_random,omitempty"`
	Length    int    `json:"length"`
	MacLen    int    `json:"mac_len,omitempty"`
	KeyLen    int    `json:"key_len,omitempty"`
	IVLen     int    `json:"iv_len,omitempty"`
	// handshake transcript, in the chunks handed to Write
	Chunks        []hexb `json:"transcript_chunks,omitempty"`
	NilTranscript bool   `json:"transcript_nil,omitempty"`
}

type witness struct {
	Spec   spec   `json:"spec"`
	Detail string `json:"detail"`
	Got    string `json:"got"`
	Want   string `json:"want"`
}

type result struct {
	outcome string // outcome class (always set)
	sig     string // violation signature ("" = conforming)
	detail  string
	got     []byte
	want    []byte
	impl    int // calls of zcrypto functions
	oracle  int // oracle evaluations
	nontriv bool
}

func short(b []byte) string {
	if len(b) > 96 {
		return fmt.Sprintf("%x…(%d bytes)", b[:96], len(b))
	}
	return hex.EncodeToString(b)
}

func rawChunks(c []hexb) [][]byte {
	out := make([][]byte, len(c))
	for i := range c {
		out[i] = c[i]
	}
	return out
}

func joinChunks(c []hexb) []byte {
	var out []byte
	for _, x := range c {
		out = append(out, x...)
	}
	return out
}

func verName(v uint16) string {
	switch v {
	case verTLS10:
		return "TLS1.0"
	case verTLS11:
		return "TLS1.1"
	case verTLS12:
		return "TLS1.2"
	}
	return fmt.Sprintf("0x%04x", v)
}

func diffKind(got, want []byte) string {
	if len(got) != len(want) {
		return "wrong length"
	}
	return "bytes differ"
}

// ------------------------------------------------------------------ zcrypto side

func implPRFDirect(c prfClass) prfFn {
	return func(secret, label, seed []byte, n int) []byte {
		out := make([]byte, n)
		switch c {
		case classPRF10:
			tls.VerifC26PRF10(out, secret, label, seed)
		case classPRF12256:
			tls.VerifC26PRF12("SHA-256", out, secret, label, seed)
		case classPRF12384:
			tls.VerifC26PRF12("SHA-384", out, secret, label, seed)
		}
		return out
	}
}

func implPRFSelected(s spec) prfFn {
	return func(secret, label, seed []byte, n int) []byte {
		out := make([]byte, n)
		tls.VerifC26PRFForVersion(s.Version, s.Table, s.Index, out, secret, label, seed)
		return out
	}
}

func implExpand(suite int) expandFn {
	return func(secret []byte, label string, context []byte, n int) (out []byte, err error) {
		if p, msg, _ := ev.Try(func() { out = tls.VerifC26ExpandLabel(suite, secret, label, context, n) }); p {
			return nil, errors.New("panic: " + msg)
		}
		return out, nil
	}
}

func rootSigPRF(c prfClass, kind string) string {
	rfc := "RFC 5246 §5"
	if c == classPRF10 {
		rfc = "RFC 2246 §5"
	}
	return fmt.Sprintf("%s: %s from the %s PRF", c, kind, rfc)
}

func rootSigExpand(hashName, kind string) string {
	return fmt.Sprintf("expandLabel(%s): %s from RFC 8446 §7.1 HKDF-Expand-Label", hashName, kind)
}

func panicSig(fn, site, msg string) string {
	return fmt.Sprintf("%s: panic@%s: %s", fn, site, ev.MsgClass(msg))
}

// attribute12 names the root cause of a mismatch of a TLS<=1.2 derived
// function: compose is the RFC composition over "the PRF".
func attribute12(s spec, class prfClass, got, want []byte, compose func(p prfFn) []byte, own string) string {
	var viaDirect, viaSel []byte
	ev.Try(func() { viaDirect = compose(implPRFDirect(class)) })
	if viaDirect != nil && bytes.Equal(got, viaDirect) {
		return rootSigPRF(class, diffKind(got, want))
	}
	ev.Try(func() { viaSel = compose(implPRFSelected(s)) })
	if viaSel != nil && bytes.Equal(got, viaSel) {
		return sigSelection(s, class)
	}
	return own + " (" + diffKind(got, want) + ")"
}

func sigSelection(s spec, class prfClass) string {
	return fmt.Sprintf("prfForVersion(%s, suite needing %s): selected PRF is not the RFC one", verName(s.Version), class)
}

// ------------------------------------------------------------------ evaluation

type suite13Info struct {
	idx    int
	id     uint16
	known  bool
	hname  string
	h      hashFn
	keyLen int
}

var suites13 []suite13Info

// directBelow: output lengths up to this are always computed by a direct oracle
// call; above it, where an item sweeps every length of the same PRF input, the
// expected value is the prefix of one oracle evaluation at the item's largest
// length. That is RFC 5246 §5 / RFC 2246 §5 verbatim: P_hash is "iterated as
// many times as necessary", surplus bytes "discarded" - PRF(...)[0..n-1] is by
// definition a prefix of the P_hash stream (the direct calls up to 130 bytes,
// past every hash's output and block size, cross-check the oracle's own
// truncation). HKDF-Expand-Label has no such property (length is an input).
const directBelow = 130

// stream caches, per work item, the oracle PRF stream at the item's largest length.
type stream struct {
	max  int
	full []byte
}

func (st *stream) want(n int, direct func(n int) []byte) []byte {
	if st == nil || n <= directBelow || n > st.max {
		return direct(n)
	}
	if st.full == nil {
		st.full = direct(st.max)
	}
	return st.full[:n]
}

func eval(s spec, st *stream) (r result) {
	switch s.Fn {
	case "split":
		return evalSplit(s)
	case "prf":
		return evalPRF(s, st)
	case "ekm":
		return evalDerived12(s, st)
	case "prfForVersion", "master", "keys", "finished":
		return evalDerived12(s, nil)
	case "expandLabel", "deriveSecret", "extract", "nextTrafficSecret", "trafficKey", "finished13", "exporter13":
		return evalTLS13(s)
	}
	panic("eval: unknown fn " + s.Fn)
}

func evalSplit(s spec) (r result) {
	r.impl, r.oracle, r.nontriv = 1, 1, len(s.Secret) > 0
	var g1, g2 []byte
	if p, msg, site := ev.Try(func() { g1, g2 = tls.VerifC26SplitPreMasterSecret(s.Secret) }); p {
		r.outcome, r.sig, r.detail = "split:panic", panicSig("splitPreMasterSecret", site, msg), msg
		return
	}
	w1, w2 := oSplit(s.Secret)
	if !bytes.Equal(g1, w1) || !bytes.Equal(g2, w2) {
		r.outcome = "split:mismatch"
		r.sig = "splitPreMasterSecret: halves differ from RFC 2246 §5 (S1 = first, S2 = last ceil(L_S/2) bytes)"
		r.detail = fmt.Sprintf("L_S=%d", len(s.Secret))
		r.got, r.want = cat(g1, []byte("|"), g2), cat(w1, []byte("|"), w2)
		return
	}
	r.outcome = "split:match"
	return
}

func evalPRF(s spec, st *stream) (r result) {
	r.impl, r.oracle, r.nontriv = 1, 1, s.Length > 0
	var got []byte
	if p, msg, site := ev.Try(func() { got = implPRFDirect(s.Class)(s.Secret, []byte(s.Label), s.Seed, s.Length) }); p {
		r.outcome, r.sig, r.detail = "prf:panic", panicSig(string(s.Class), site, msg), msg
		return
	}
	want := st.want(s.Length, func(n int) []byte { return oPRF(s.Class, s.Secret, []byte(s.Label), s.Seed, n) })
	if !bytes.Equal(got, want) {
		r.outcome, r.sig, r.got, r.want = "prf:mismatch", rootSigPRF(s.Class, diffKind(got, want)), got, want
		r.detail = fmt.Sprintf("secret %d bytes, label %d bytes, seed %d bytes, output %d bytes", len(s.Secret), len(s.Label), len(s.Seed), s.Length)
		return
	}
	r.outcome = "prf:match(" + string(s.Class) + ")"
	return
}

func evalDerived12(s spec, st *stream) (r result) {
	class, known := oClass(s.Version, s.SuiteID)
	if !known {
		r.outcome = s.Fn + ":skipped(suite id unknown to oracle)"
		return
	}
	p := oPRFOf(class)
	label := []byte(s.Label)
	fail := func(sig, detail string, got, want []byte) {
		r.outcome, r.sig, r.detail, r.got, r.want = s.Fn+":mismatch", sig, detail, got, want
	}
	ctx := fmt.Sprintf("%s suite 0x%04x (%s[%d]) → %s", verName(s.Version), s.SuiteID, s.Table, s.Index, class)
	r.nontriv = true
	switch s.Fn {
	case "prfForVersion":
		r.impl, r.oracle, r.nontriv = 1, 1, s.Length > 0
		var got []byte
		if pn, msg, site := ev.Try(func() { got = implPRFSelected(s)(s.Secret, label, s.Seed, s.Length) }); pn {
			fail(panicSig("prfForVersion", site, msg), ctx, nil, nil)
			return
		}
		want := p(s.Secret, label, s.Seed, s.Length)
		if !bytes.Equal(got, want) {
			var direct []byte
			ev.Try(func() { direct = implPRFDirect(class)(s.Secret, label, s.Seed, s.Length) })
			sig := sigSelection(s, class)
			if direct != nil && bytes.Equal(direct, got) {
				sig = rootSigPRF(class, diffKind(got, want))
			}
			fail(sig, ctx, got, want)
			return
		}
	case "master":
		r.impl, r.oracle = 1, 1
		var got []byte
		if pn, msg, site := ev.Try(func() {
			got = tls.VerifC26MasterFromPreMasterSecret(s.Version, s.Table, s.Index, s.Secret, s.CR, s.SR)
		}); pn {
			fail(panicSig("masterFromPreMasterSecret", site, msg), ctx, nil, nil)
			return
		}
		compose := func(p prfFn) []byte { return oMaster(p, s.Secret, s.CR, s.SR) }
		want := compose(p)
		if !bytes.Equal(got, want) {
			fail(attribute12(s, class, got, want, compose,
				`masterFromPreMasterSecret: not PRF(pre_master_secret, "master secret", ClientHello.random + ServerHello.random)[0..47]`), ctx, got, want)
			return
		}
	case "keys":
		r.impl, r.oracle = 1, 1
		r.nontriv = s.MacLen+s.KeyLen+s.IVLen > 0
		var g [6][]byte
		if pn, msg, site := ev.Try(func() {
			g[0], g[1], g[2], g[3], g[4], g[5] = tls.VerifC26KeysFromMasterSecret(s.Version, s.Table, s.Index, s.Secret, s.CR, s.SR, s.MacLen, s.KeyLen, s.IVLen)
		}); pn {
			fail(panicSig("keysFromMasterSecret", site, msg), ctx, nil, nil)
			return
		}
		compose := func(p prfFn) []byte {
			k := oKeys(p, s.Secret, s.CR, s.SR, s.MacLen, s.KeyLen, s.IVLen)
			return cat(k[:]...)
		}
		w := oKeys(p, s.Secret, s.CR, s.SR, s.MacLen, s.KeyLen, s.IVLen)
		for i := range g {
			if !bytes.Equal(g[i], w[i]) {
				sig := "keysFromMasterSecret: output is not the RFC 5246 §6.3 partition of PRF(master_secret, \"key expansion\", server_random + client_random)"
				if len(g[i]) == len(w[i]) {
					sig = attribute12(s, class, cat(g[:]...), cat(w[:]...), compose, sig)
				} else {
					sig += " (wrong length)"
				}
				fail(sig, fmt.Sprintf("%s; (mac,key,iv)=(%d,%d,%d); first differing part %s", ctx, s.MacLen, s.KeyLen, s.IVLen, keyNames[i]), g[i], w[i])
				return
			}
		}
	case "finished":
		r.impl, r.oracle = 3, 3
		var sum, cl, sv []byte
		if pn, msg, site := ev.Try(func() {
			sum, cl, sv = tls.VerifC26Finished(s.Version, s.Table, s.Index, rawChunks(s.Chunks), s.Secret)
		}); pn {
			fail(panicSig("finishedHash", site, msg), ctx, nil, nil)
			return
		}
		msgs := joinChunks(s.Chunks)
		if want := oSessionHash(class, msgs); !bytes.Equal(sum, want) {
			for _, other := range allClasses { // the transcript hash follows the PRF selection
				if other != class && bytes.Equal(sum, oSessionHash(other, msgs)) {
					fail(sigSelection(s, class), fmt.Sprintf("%s; finishedHash.Sum is the %s transcript hash", ctx, other), sum, want)
					return
				}
			}
			fail("finishedHash.Sum: not Hash(handshake_messages) (TLS1.2) / MD5+SHA-1 (TLS1.0/1.1) ("+diffKind(sum, want)+")",
				fmt.Sprintf("%s; %d bytes in %d writes", ctx, len(msgs), len(s.Chunks)), sum, want)
			return
		}
		for _, side := range []struct {
			client bool
			got    []byte
			name   string
		}{{true, cl, "clientSum"}, {false, sv, "serverSum"}} {
			compose := func(p prfFn) []byte { return oFinished(p, class, s.Secret, side.client, msgs) }
			want := compose(p)
			if !bytes.Equal(side.got, want) {
				fail(attribute12(s, class, side.got, want, compose,
					"finishedHash."+side.name+": not PRF(master_secret, finished_label, Hash(handshake_messages))[0..11]"),
					fmt.Sprintf("%s; %d bytes in %d writes", ctx, len(msgs), len(s.Chunks)), side.got, want)
				return
			}
		}
	case "ekm":
		r.impl, r.oracle = 1, 1
		r.nontriv = s.Length > 0
		var context []byte
		if !s.SeedNil {
			context = s.Seed
			if context == nil {
				context = []byte{}
			}
		}
		var got []byte
		var err error
		if pn, msg, site := ev.Try(func() {
			got, err = tls.VerifC26EKM(s.Version, s.Table, s.Index, s.Secret, s.CR, s.SR, s.Label, context, s.Length)
		}); pn {
			fail(panicSig("ekmFromMasterSecret", site, msg), ctx, nil, nil)
			return
		}
		compose := func(p prfFn) []byte {
			b, _ := oEKM(p, s.Secret, s.CR, s.SR, s.Label, context, !s.SeedNil, s.Length)
			return b
		}
		_, werr := oEKM(p, s.Secret, s.CR, s.SR, s.Label, context, !s.SeedNil, 0)
		var want []byte
		if werr == nil {
			want = st.want(s.Length, func(n int) []byte {
				b, _ := oEKM(p, s.Secret, s.CR, s.SR, s.Label, context, !s.SeedNil, n)
				return b
			})
		}
		switch {
		case werr == errReserved:
			if err == nil && len(got) > 0 {
				fail("ekmFromMasterSecret: keying material returned for a label reserved by RFC 5705 §4", ctx+"; label "+s.Label, got, nil)
				return
			}
			if err != nil {
				r.outcome = "ekm:reserved-label-refused(error)"
			} else {
				r.outcome = "ekm:reserved-label-no-material(length 0)"
			}
			return
		case werr != nil: // context_value does not fit uint16: outside the RFC's domain
			if err != nil {
				r.outcome = "ekm:out-of-domain(context > 65535):error"
			} else {
				r.outcome = "ekm:out-of-domain(context > 65535):returned"
			}
			return
		case err != nil:
			fail("ekmFromMasterSecret: unexpected error: "+ev.MsgClass(err.Error()), ctx, nil, want)
			return
		case !bytes.Equal(got, want):
			fail(attribute12(s, class, got, want, compose,
				"ekmFromMasterSecret: not PRF(master_secret, label, client_random + server_random [+ uint16 len + context])"),
				fmt.Sprintf("%s; label %q, context nil=%v len=%d, length %d", ctx, trunc(s.Label), s.SeedNil, len(context), s.Length), got, want)
			return
		}
		if s.SeedNil {
			r.outcome = "ekm:match(no context)"
		} else {
			r.outcome = "ekm:match(with context)"
		}
		return
	}
	r.outcome = s.Fn + ":match(" + string(class) + ")"
	return
}

func trunc(s string) string {
	if len(s) > 24 {
		return s[:24] + fmt.Sprintf("…(%d bytes)", len(s))
	}
	return s
}

func evalTLS13(s spec) (r result) {
	if s.Suite13 < 0 || s.Suite13 >= len(suites13) {
		r.outcome = s.Fn + ":skipped(no such TLS 1.3 suite index)"
		return
	}
	su := suites13[s.Suite13]
	if !su.known {
		r.outcome = s.Fn + ":skipped(TLS 1.3 suite id unknown to oracle)"
		return
	}
	h, x := su.h, oExpandOf(su.h)
	ix := implExpand(su.idx)
	ctx := fmt.Sprintf("suite 0x%04x (%s)", su.id, su.hname)
	fail := func(sig, detail string, got, want []byte) {
		r.outcome, r.sig, r.detail, r.got, r.want = s.Fn+":mismatch", sig, detail, got, want
	}
	// derived: compare, and attribute to expandLabel when that explains it.
	derived := func(name string, got, want []byte, compose func(x expandFn) ([]byte, error), own string) bool {
		if bytes.Equal(got, want) {
			return true
		}
		sig := own + " (" + diffKind(got, want) + ")"
		if via, err := compose(ix); err == nil && bytes.Equal(via, got) {
			sig = rootSigExpand(su.hname, diffKind(got, want))
		}
		fail(sig, ctx+"; "+name, got, want)
		return false
	}
	msgs := joinChunks(s.Chunks)
	r.impl, r.oracle, r.nontriv = 1, 1, true
	switch s.Fn {
	case "expandLabel":
		r.nontriv = s.Length > 0
		want, werr := oExpandLabel(h, s.Secret, s.Label, s.Seed, s.Length)
		var got []byte
		pn, msg, site := ev.Try(func() { got = tls.VerifC26ExpandLabel(su.idx, s.Secret, s.Label, s.Seed, s.Length) })
		if werr != nil { // outside RFC 8446/5869's domain: nothing demanded
			r.nontriv = false
			why := "length"
			if len(s.Label) > 249 {
				why = "label > 249"
			} else if len(s.Seed) > 255 {
				why = "context > 255"
			}
			if pn {
				r.outcome = "expandLabel:out-of-domain(" + why + "):panic"
			} else {
				r.outcome = "expandLabel:out-of-domain(" + why + "):returned"
			}
			return
		}
		if pn {
			fail(panicSig("expandLabel("+su.hname+")", site, msg), ctx, nil, want)
			return
		}
		if !bytes.Equal(got, want) {
			fail(rootSigExpand(su.hname, diffKind(got, want)),
				fmt.Sprintf("%s; secret %d bytes, label %d bytes, context %d bytes, length %d", ctx, len(s.Secret), len(s.Label), len(s.Seed), s.Length), got, want)
			return
		}
		r.outcome = "expandLabel:match(" + su.hname + ")"
		return
	case "deriveSecret":
		compose := func(x expandFn) ([]byte, error) {
			m := msgs
			if s.NilTranscript {
				m = nil // Derive-Secret(., ., "") : transcript of no messages
			}
			return oDeriveSecret(x, h, s.Secret, s.Label, m)
		}
		want, _ := compose(x)
		var got []byte
		if pn, msg, site := ev.Try(func() {
			got = tls.VerifC26DeriveSecret(su.idx, s.Secret, s.Label, rawChunks(s.Chunks), s.NilTranscript)
		}); pn {
			fail(panicSig("deriveSecret", site, msg), ctx, nil, want)
			return
		}
		if !derived(fmt.Sprintf("label %q, transcript nil=%v %d bytes in %d writes", s.Label, s.NilTranscript, len(msgs), len(s.Chunks)), got, want, compose,
			"deriveSecret: not HKDF-Expand-Label(Secret, Label, Transcript-Hash(Messages), Hash.length)") {
			return
		}
	case "extract":
		var newSecret, cur []byte
		if !s.SecretNil {
			newSecret = s.Secret
			if newSecret == nil {
				newSecret = []byte{}
			}
		}
		if !s.SeedNil {
			cur = s.Seed
			if cur == nil {
				cur = []byte{}
			}
		}
		want := oExtract13(h, newSecret, cur)
		var got []byte
		if pn, msg, site := ev.Try(func() { got = tls.VerifC26Extract(su.idx, newSecret, cur) }); pn {
			fail(panicSig("extract", site, msg), ctx, nil, want)
			return
		}
		if !bytes.Equal(got, want) {
			// An empty, non-nil new secret: RFC 8446 does not say whether that is
			// "not available" (→ zeros) or an empty IKM; both are accepted.
			if newSecret != nil && len(newSecret) == 0 && bytes.Equal(got, oExtract13(h, nil, cur)) {
				r.oracle++
				r.outcome = "extract:match(empty new secret treated as absent)"
				return
			}
			fail("extract("+su.hname+"): not HKDF-Extract(salt = current secret, IKM = new secret | zeros) ("+diffKind(got, want)+")",
				fmt.Sprintf("%s; new nil=%v len=%d, current nil=%v len=%d", ctx, s.SecretNil, len(newSecret), s.SeedNil, len(cur)), got, want)
			return
		}
	case "nextTrafficSecret":
		compose := func(x expandFn) ([]byte, error) { return oNextTrafficSecret(x, h, s.Secret) }
		want, _ := compose(x)
		var got []byte
		if pn, msg, site := ev.Try(func() { got = tls.VerifC26NextTrafficSecret(su.idx, s.Secret) }); pn {
			fail(panicSig("nextTrafficSecret", site, msg), ctx, nil, want)
			return
		}
		if !derived("", got, want, compose, `nextTrafficSecret: not HKDF-Expand-Label(secret, "traffic upd", "", Hash.length)`) {
			return
		}
	case "trafficKey":
		r.impl, r.oracle = 1, 2
		wk, wiv, _ := oTrafficKey(x, s.Secret, su.keyLen, ivLen13)
		var gk, giv []byte
		if pn, msg, site := ev.Try(func() { gk, giv = tls.VerifC26TrafficKey(su.idx, s.Secret) }); pn {
			fail(panicSig("trafficKey", site, msg), ctx, nil, wk)
			return
		}
		ck := func(x expandFn) ([]byte, error) {
			k, _, err := oTrafficKey(x, s.Secret, su.keyLen, ivLen13)
			return k, err
		}
		civ := func(x expandFn) ([]byte, error) {
			_, iv, err := oTrafficKey(x, s.Secret, su.keyLen, ivLen13)
			return iv, err
		}
		if !derived("write_key", gk, wk, ck, fmt.Sprintf(`trafficKey: key is not HKDF-Expand-Label(Secret, "key", "", key_length) of suite 0x%04x`, su.id)) {
			return
		}
		if !derived("write_iv", giv, wiv, civ, `trafficKey: iv is not HKDF-Expand-Label(Secret, "iv", "", 12)`) {
			return
		}
	case "finished13":
		compose := func(x expandFn) ([]byte, error) { return oFinished13(x, h, s.Secret, msgs) }
		want, _ := compose(x)
		var got []byte
		if pn, msg, site := ev.Try(func() { got = tls.VerifC26Finished13(su.idx, s.Secret, rawChunks(s.Chunks)) }); pn {
			fail(panicSig("finishedHash(TLS1.3)", site, msg), ctx, nil, want)
			return
		}
		if !derived(fmt.Sprintf("transcript %d bytes in %d writes", len(msgs), len(s.Chunks)), got, want, compose,
			`finishedHash(TLS1.3): not HMAC(HKDF-Expand-Label(BaseKey, "finished", "", Hash.length), Transcript-Hash)`) {
			return
		}
	case "exporter13":
		r.oracle = 3
		r.nontriv = s.Length > 0
		var context []byte
		if !s.SeedNil {
			context = s.Seed
			if context == nil {
				context = []byte{}
			}
		}
		compose := func(x expandFn) ([]byte, error) {
			m := msgs
			if s.NilTranscript {
				m = nil
			}
			return oExporter13(x, h, s.Secret, m, s.Label, context, s.Length)
		}
		want, werr := compose(x)
		var got []byte
		var err error
		pn, msg, site := ev.Try(func() {
			got, err = tls.VerifC26ExportKeyingMaterial13(su.idx, s.Secret, rawChunks(s.Chunks), s.NilTranscript, s.Label, context, s.Length)
		})
		if werr != nil {
			r.nontriv = false
			switch {
			case pn:
				r.outcome = "exporter13:out-of-domain:panic"
			case err != nil:
				r.outcome = "exporter13:out-of-domain:error"
			default:
				r.outcome = "exporter13:out-of-domain:returned"
			}
			return
		}
		if pn {
			fail(panicSig("exportKeyingMaterial(TLS1.3)", site, msg), ctx, nil, want)
			return
		}
		if err != nil {
			fail("exportKeyingMaterial(TLS1.3): unexpected error: "+ev.MsgClass(err.Error()), ctx, nil, want)
			return
		}
		if !derived(fmt.Sprintf("label %q, context nil=%v len=%d, length %d", trunc(s.Label), s.SeedNil, len(context), s.Length), got, want, compose,
			`exportKeyingMaterial(TLS1.3): not HKDF-Expand-Label(Derive-Secret(exporter_master_secret, label, ""), "exporter", Hash(context), length)`) {
			return
		}
	}
	r.outcome = s.Fn + ":match(" + su.hname + ")"
	return
}

// ------------------------------------------------------------------ inputs

// pat: deterministic non-repeating filler; salt separates the roles
// (secret / seed / client random / server random ...) and the patterns.
func pat(n int, salt int) []byte {
	b := make([]byte, n)
	x := uint32(salt*2654435761 + n*40503 + 12345)
	for i := range b {
		x = x*1664525 + 1013904223 // fixed LCG: a closed, reproducible byte sequence
		b[i] = byte(x >> 24)
	}
	return b
}

func longLabel(n int) string {
	b := make([]byte, n)
	for i := range b {
		b[i] = 'a' + byte(i%26)
	}
	return string(b)
}

// chunkings of a transcript: how it is handed to Write.
func chunkings(m []byte, all bool) [][]hexb {
	out := [][]hexb{{hexb(m)}}
	if len(m) == 0 {
		return append(out, []hexb{}) // no Write at all
	}
	if len(m) >= 2 {
		out = append(out, []hexb{hexb(m[:1]), hexb(m[1:])})
		out = append(out, []hexb{hexb(m[:len(m)/2]), hexb(m[len(m)/2:])})
		if all {
			out = append(out, []hexb{hexb(m[:len(m)-1]), hexb(m[len(m)-1:])})
			if len(m) <= 200 {
				var bytewise []hexb
				for i := range m {
					bytewise = append(bytewise, hexb(m[i:i+1]))
				}
				out = append(out, bytewise)
			}
		}
	}
	return out
}

// item: one spec evaluated for every length in lens (nil = just s.Length).
type item struct {
	s    spec
	lens []int
}

func rangeInts(lo, hi int) []int {
	out := make([]int, 0, hi-lo+1)
	for i := lo; i <= hi; i++ {
		out = append(out, i)
	}
	return out
}

// ------------------------------------------------------------------ collector

type vrec struct {
	order int64
	w     any
	count int64
}

type collector struct {
	mu   sync.Mutex
	viol map[string]*vrec
}

func (k *collector) add(sig string, order int64, w any) {
	k.mu.Lock()
	defer k.mu.Unlock()
	v, ok := k.viol[sig]
	if !ok {
		k.viol[sig] = &vrec{order, w, 1}
		return
	}
	v.count++
	if order < v.order {
		v.order, v.w = order, w
	}
}

func mkWitness(s spec, r result) witness {
	return witness{Spec: s, Detail: r.detail, Got: short(r.got), Want: short(r.want)}
}

func main() {
	if nohb.IsWorker() {
		nohb.WorkerMain(reentrantOps(), reentrantRepoDir())
		return
	}
	debug.SetGCPercent(200)                        // many short-lived buffers, tiny live heap
	if p := os.Getenv("C26_CPUPROFILE"); p != "" { // development aid only
		if f, err := os.Create(p); err == nil {
			pprof.StartCPUProfile(f) // stopped at the end of the body (ev.Main exits the process)
		}
	}
	ev.Main("C26", "model_checking", func(c *ev.Ctx) {
		// ---- the oracle must reproduce the published vectors, else the check is broken
		fails, nkat := selfCheck()
		if len(fails) > 0 {
			c.Broken("oracle self-check failed (%d of %d known answers):\n  %s", len(fails), nkat, strings.Join(fails, "\n  "))
		}
		c.Set("oracle_known_answers_passed", nkat)

		// ---- suite tables
		suites := tls.VerifC26Suites()
		for _, s := range tls.VerifC26Suites13() {
			p, ok := rfcSuites13[s.ID]
			info := suite13Info{idx: s.Index, id: s.ID, known: ok}
			if ok {
				info.hname, info.h, info.keyLen = p.hash, hashByName(p.hash), p.keyLen
			}
			suites13 = append(suites13, info)
		}

		if c.Replay != nil {
			var w witness
			if err := json.Unmarshal(c.Replay, &w); err != nil {
				c.Broken("bad witness: %v", err)
			}
			if w.Spec.Fn == "ems-handshake" {
				runEMSProbe(c, &collector{viol: map[string]*vrec{}}, true)
				return
			}
			if w.Spec.Fn == "std-handshake" {
				runStdProbe(c, &collector{viol: map[string]*vrec{}}, true)
				return
			}
			r := eval(w.Spec, nil)
			c.States.Add(1)
			c.Transitions.Add(int64(r.impl))
			c.Evaluations.Add(int64(r.oracle))
			c.Outcome(r.outcome, 1)
			if r.sig != "" {
				c.Violation(r.sig, mkWitness(w.Spec, r))
			}
			return
		}

		thorough := !c.Quick()
		quickSecs := []int{0, 1, 16, 32, 47, 48, 64, 65, 128, 129}
		quickSeeds := []int{0, 1, 32, 64, 77}
		extraSeeds := []int{2, 31, 33, 63, 65, 127, 128, 129, 255, 256}
		secLens := quickSecs // pre-master / master secret lengths of the derived functions
		secs13 := quickSecs  // secret lengths of the TLS 1.3 functions
		if thorough {
			secLens = rangeInts(0, 132)
			secs13 = []int{0, 1, 2, 15, 16, 17, 31, 32, 33, 47, 48, 49, 63, 64, 65, 66, 96, 127, 128, 129, 130, 200}
		}
		const maxOut = 512
		outLens := rangeInts(0, maxOut)       // EVERY output length 0..512, both tiers
		longLens := rangeInts(maxOut+1, 1100) // thorough: continuation on a reduced input set
		notIn := func(all, sub []int) (out []int) {
			for _, x := range all {
				found := false
				for _, y := range sub {
					found = found || x == y
				}
				if !found {
					out = append(out, x)
				}
			}
			return
		}
		label250 := longLabel(250)
		prfLabels := []string{"", "master secret", "key expansion", "client finished", "EXPORTER-x", label250}

		var col0 []map[string]any // suite-table mismatches
		var items []item
		add := func(s spec, lens []int) { items = append(items, item{s, lens}) }
		stageStart := map[string]int{}
		stageOrder := []string{}
		stage := func(name string) { stageStart[name] = len(items); stageOrder = append(stageOrder, name) }

		// ---- stage 0: the suite tables' key-block lengths against the suites' RFC
		// definitions (they parameterise the key_block partition of real connections)
		{
			match, unknown := 0, 0
			for _, su := range suites {
				want, ok := rfcSuiteParams[su.ID]
				if !ok {
					unknown++
					c.Outcome("suite-table:skipped(suite id unknown to oracle)", 1)
					continue
				}
				c.States.Add(1)
				c.Evaluations.Add(1)
				if (suiteParams{su.KeyLen, su.MacLen, su.IVLen}) != want {
					c.Outcome("suite-table:mismatch", 1)
					col0 = append(col0, map[string]any{"table": su.Table, "index": su.Index, "suite_id": fmt.Sprintf("0x%04x", su.ID),
						"table_key_mac_iv": []int{su.KeyLen, su.MacLen, su.IVLen}, "rfc_key_mac_iv": []int{want.key, want.mac, want.iv}})
					continue
				}
				match++
				c.Outcome("suite-table:lengths-match-rfc", 1)
			}
			c.Set("suite_table_lengths_vs_rfc", map[string]int{"match": match, "unknown_id": unknown, "mismatch": len(col0)})
		}

		// ---- stage 1: secret split, all lengths 0..(2·max secret)
		stage("split")
		for l := 0; l <= 260; l++ {
			add(spec{Fn: "split", Secret: pat(l, 1)}, nil)
		}

		// ---- stage 2: the three PRFs, full grid × every output length
		stage("prf-grid")
		prfBlock := func(secs []int, labels []string, seeds []int, pt int, lens []int) {
			for _, class := range allClasses {
				for _, sl := range secs {
					if pt > 0 && sl == 0 {
						continue // the empty secret has one pattern
					}
					for _, lb := range labels {
						for _, sd := range seeds {
							if pt > 0 && sd == 0 {
								continue
							}
							add(spec{Fn: "prf", Class: class, Secret: pat(sl, 10+pt), Label: lb, Seed: pat(sd, 20+pt)}, lens)
						}
					}
				}
			}
		}
		prfBlock(quickSecs, prfLabels, quickSeeds, 0, outLens) // the DESIGN grid: 3 x 10 x 6 x 5 x 513
		if thorough {
			prfBlock(notIn(rangeInts(0, 132), quickSecs), prfLabels, quickSeeds, 0, outLens) // every secret length 0..132
			prfBlock(quickSecs, prfLabels, extraSeeds, 0, outLens)                           // more seed lengths
			prfBlock(quickSecs, prfLabels, quickSeeds, 1, outLens)                           // second byte pattern
			prfBlock(quickSecs, []string{"", "key expansion"}, []int{0, 77}, 0, longLens)    // lengths 513..1100
		}

		// ---- stage 3: per (version, suite table entry): PRF selection, master secret,
		// key block, Finished, exporter
		versions := []uint16{verTLS10, verTLS11, verTLS12}
		type triple struct{ mac, key, iv int }
		tripleSet := map[triple]bool{}
		for _, su := range suites {
			tripleSet[triple{su.MacLen, su.KeyLen, su.IVLen}] = true
		}
		var triples []triple
		for t := range tripleSet {
			triples = append(triples, t)
		}
		sort.Slice(triples, func(i, j int) bool {
			a, b := triples[i], triples[j]
			if a.mac != b.mac {
				return a.mac < b.mac
			}
			if a.key != b.key {
				return a.key < b.key
			}
			return a.iv < b.iv
		})
		randomPairs := [][2]int{{32, 32}, {0, 0}, {1, 0}, {0, 1}, {64, 77}, {77, 64}, {32, 0}, {0, 32}}
		msLens := []int{48, 0, 1, 47, 65, 129}
		trLens := []int{0, 1, 63, 64, 65, 127, 128, 129, 200, 1000}
		if thorough {
			msLens = []int{48, 0, 1, 16, 32, 47, 49, 64, 65, 128, 129}
			trLens = append(rangeInts(0, 130), 200, 255, 256, 257, 1000, 4096)
		}
		// representatives for the every-length exporter grid: first table entry per
		// (version, demanded PRF class)
		type repKey struct {
			v uint16
			c prfClass
		}
		reps := map[repKey]bool{}
		// A table entry whose (id, keyLen, macLen, ivLen, SHA384 flag) equal those of an
		// earlier entry is the same data: it gets the PRF-selection cases and one case of
		// each derived function instead of the full grid (quick tier only).
		type dupKey struct {
			v uint16
			e tls.VerifC26Suite
		}
		fullDone := map[dupKey]bool{}
		nDup := 0
		stage("per-suite")
		for _, v := range versions {
			for _, su := range suites {
				base := spec{Version: v, Table: su.Table, Index: su.Index, SuiteID: su.ID}
				dk := dupKey{v, su}
				dk.e.Table, dk.e.Index = "", 0
				if fullDone[dk] && !thorough {
					nDup++
					for _, sl := range []int{0, 48, 129} {
						s := base
						s.Fn, s.Secret, s.Label, s.Seed = "prfForVersion", pat(sl, 30), "test label", pat(64, 31)
						add(s, []int{0, 1, 12, 48, 100, 200})
					}
					s := base
					s.Fn, s.Secret, s.CR, s.SR = "master", pat(48, 40), pat(32, 41), pat(32, 42)
					add(s, nil)
					s.Fn, s.MacLen, s.KeyLen, s.IVLen = "keys", su.MacLen, su.KeyLen, su.IVLen
					add(s, nil)
					s = base
					s.Fn, s.Secret, s.Chunks = "finished", pat(48, 61), []hexb{pat(65, 60), pat(64, 62)}
					add(s, nil)
					s = base
					s.Fn, s.Secret, s.CR, s.SR, s.Label, s.Seed = "ekm", pat(48, 70), pat(32, 71), pat(32, 72), "EXPORTER-x", pat(7, 73)
					add(s, []int{0, 1, 32, 100})
					s.Label = "key expansion"
					add(s, []int{0, 32})
					continue
				}
				fullDone[dk] = true
				// PRF selection
				for _, sl := range []int{0, 48, 129} {
					s := base
					s.Fn, s.Secret, s.Label, s.Seed = "prfForVersion", pat(sl, 30), "test label", pat(64, 31)
					add(s, []int{0, 1, 12, 48, 100, 200})
				}
				// master secret
				for _, pl := range secLens {
					for _, rp := range randomPairs {
						s := base
						s.Fn, s.Secret, s.CR, s.SR = "master", pat(pl, 40), pat(rp[0], 41), pat(rp[1], 42)
						add(s, nil)
					}
				}
				// key block: the suite's own lengths and every triple of the tables
				for _, ml := range msLens {
					for _, rp := range [][2]int{{32, 32}, {0, 0}, {1, 77}} {
						ts := append([]triple{{su.MacLen, su.KeyLen, su.IVLen}}, triples...)
						for ti, t := range ts {
							if ti > 0 && t == ts[0] {
								continue
							}
							s := base
							s.Fn, s.Secret, s.CR, s.SR = "keys", pat(ml, 50), pat(rp[0], 51), pat(rp[1], 52)
							s.MacLen, s.KeyLen, s.IVLen = t.mac, t.key, t.iv
							add(s, nil)
						}
					}
				}
				// Finished
				for _, tl := range trLens {
					m := pat(tl, 60)
					for _, ch := range chunkings(m, thorough || tl <= 129) {
						for _, ml := range []int{48, 0, 1, 47, 129} {
							s := base
							s.Fn, s.Secret, s.Chunks = "finished", pat(ml, 61), ch
							add(s, nil)
						}
					}
				}
				// exporter: reserved labels and a few lengths for every suite
				for _, lb := range []string{"client finished", "server finished", "master secret", "key expansion"} {
					for _, cx := range []int{-1, 0, 32} {
						s := base
						s.Fn, s.Secret, s.CR, s.SR, s.Label = "ekm", pat(48, 70), pat(32, 71), pat(32, 72), lb
						if cx < 0 {
							s.SeedNil = true
						} else {
							s.Seed = pat(cx, 73)
						}
						add(s, []int{0, 1, 32, 512})
					}
				}
				for _, cx := range []int{-1, 0, 7} {
					s := base
					s.Fn, s.Secret, s.CR, s.SR, s.Label = "ekm", pat(48, 70), pat(32, 71), pat(32, 72), "EXPORTER-x"
					if cx < 0 {
						s.SeedNil = true
					} else {
						s.Seed = pat(cx, 73)
					}
					add(s, []int{0, 1, 12, 32, 48, 100})
				}
				if class, ok := oClass(v, su.ID); ok && !reps[repKey{v, class}] {
					reps[repKey{v, class}] = true
					ctxLens := []int{-1, 0, 1, 32, 64, 77}
					if thorough {
						ctxLens = append(ctxLens, 255, 256, 1000)
					}
					for _, ml := range []int{48, 129} {
						for _, lb := range []string{"EXPORTER-x", "", "label", label250, "extended master secret"} {
							for _, cx := range ctxLens {
								s := base
								s.Fn, s.Secret, s.CR, s.SR, s.Label = "ekm", pat(ml, 70), pat(32, 71), pat(32, 72), lb
								if cx < 0 {
									s.SeedNil = true
								} else {
									s.Seed = pat(cx, 73)
								}
								add(s, outLens)
							}
						}
					}
					for _, cx := range []int{65535, 65536} { // uint16 edge of context_value
						s := base
						s.Fn, s.Secret, s.CR, s.SR, s.Label, s.Seed = "ekm", pat(48, 70), pat(32, 71), pat(32, 72), "EXPORTER-x", pat(cx, 73)
						add(s, []int{0, 32, 100})
					}
					// key block: a closed grid of small/boundary (mac,key,iv)
					for _, mac := range []int{0, 1, 16, 20, 32, 48} {
						for _, key := range []int{0, 1, 16, 24, 32} {
							for _, iv := range []int{0, 1, 4, 8, 12, 16} {
								s := base
								s.Fn, s.Secret, s.CR, s.SR = "keys", pat(48, 50), pat(32, 51), pat(32, 52)
								s.MacLen, s.KeyLen, s.IVLen = mac, key, iv
								add(s, nil)
							}
						}
					}
				}
			}
		}

		// ---- stage 4: TLS 1.3
		stage("tls13")
		labels13 := []string{"", "key", "iv", "finished", "derived", "c hs traffic", "EXPORTER-x", longLabel(249)}
		ctxLens13 := []int{0, 1, 32, 48, 64, 77, 255}
		extraCtx13 := []int{2, 31, 33, 47, 49, 63, 65, 127, 128, 129, 254}
		hashDone := map[string]bool{}
		for _, su := range suites13 {
			if !su.known {
				add(spec{Fn: "expandLabel", Suite13: su.idx}, nil) // recorded as skipped
				continue
			}
			hl := su.h().Size()
			base := spec{Suite13: su.idx, SuiteID: su.id}
			// HKDF-Expand-Label depends on the suite only through its hash: the full
			// product grid runs for the first suite of each hash; a later suite with the
			// same hash gets every secret and every length with 3 labels x 2 contexts
			// (quick tier only).
			lbs, cls := labels13, ctxLens13
			again := hashDone[su.hname] && !thorough
			if again {
				lbs, cls = []string{"key", "c hs traffic", longLabel(249)}, []int{0, 32}
			}
			hashDone[su.hname] = true
			xlBlock := func(secs []int, labels []string, ctxs []int, pt int, lens []int) {
				for _, sl := range secs {
					if pt > 0 && sl == 0 {
						continue
					}
					for _, lb := range labels {
						for _, cl := range ctxs {
							if pt > 0 && cl == 0 {
								continue
							}
							s := base
							s.Fn, s.Secret, s.Label, s.Seed = "expandLabel", pat(sl, 80+pt), lb, pat(cl, 81+pt)
							add(s, lens)
						}
					}
				}
			}
			xlBlock(quickSecs, lbs, cls, 0, outLens)
			if thorough {
				xlBlock(notIn(secs13, quickSecs), labels13, ctxLens13, 0, outLens)
				xlBlock(quickSecs, labels13, extraCtx13, 0, outLens)
				xlBlock(quickSecs, labels13, ctxLens13, 1, outLens)
				xlBlock(quickSecs, []string{"key", longLabel(249)}, []int{0, 255}, 0, longLens)
			}
			// limits: L = 255*HashLen is the last defined length; uint16; label/context size limits
			for _, sl := range []int{hl, 0, 129} {
				s := base
				s.Fn, s.Secret, s.Label, s.Seed = "expandLabel", pat(sl, 80), "key", pat(hl, 81)
				add(s, []int{255*hl - 1, 255 * hl, 255*hl + 1, 65535, 65536, 65536 + 32})
				s.Label = longLabel(250)
				add(s, []int{0, 32})
				s.Label, s.Seed = "key", pat(256, 81)
				add(s, []int{0, 32})
			}
			// Derive-Secret
			dsTr := []int{0, 1, 63, 64, 65, 127, 128, 129, 256, 257}
			if thorough {
				dsTr = append(rangeInts(0, 130), 255, 256, 257, 1000, 4096)
			}
			for _, sl := range secs13 {
				for _, lb := range labels13 {
					s := base
					s.Fn, s.Secret, s.Label, s.NilTranscript = "deriveSecret", pat(sl, 82), lb, true
					add(s, nil)
					for _, tl := range dsTr {
						for _, ch := range chunkings(pat(tl, 83), thorough) {
							s := base
							s.Fn, s.Secret, s.Label, s.Chunks = "deriveSecret", pat(sl, 82), lb, ch
							add(s, nil)
						}
					}
				}
			}
			// HKDF-Extract step
			for _, nl := range append([]int{-1}, secs13...) {
				for _, cl := range append([]int{-1}, secs13...) {
					s := base
					s.Fn = "extract"
					if nl < 0 {
						s.SecretNil = true
					} else {
						s.Secret = pat(nl, 84)
					}
					if cl < 0 {
						s.SeedNil = true
					} else {
						s.Seed = pat(cl, 85)
					}
					add(s, nil)
				}
			}
			for _, pt := range []int{0, 1} {
				for _, sl := range secs13 {
					if pt > 0 && sl == 0 {
						continue
					}
					s := base
					s.Fn, s.Secret = "nextTrafficSecret", pat(sl, 86+pt)
					add(s, nil)
					s.Fn = "trafficKey"
					add(s, nil)
					for _, tl := range dsTr {
						for _, ch := range chunkings(pat(tl, 88), thorough) {
							s := base
							s.Fn, s.Secret, s.Chunks = "finished13", pat(sl, 86+pt), ch
							add(s, nil)
						}
					}
				}
			}
			// exporter
			expMS := []int{hl, 129}
			expTr := []int{-1, 129}
			expCtx := []int{-1, 0, 1, 32, 77, 300}
			if thorough {
				expMS = []int{hl, 0, 1, 129}
				expTr = []int{-1, 0, 64, 129}
				expCtx = []int{-1, 0, 1, 32, 64, 77, 129, 300, 5000}
			}
			if again {
				expMS, expCtx = []int{hl}, []int{-1, 0, 32}
			}
			for _, ml := range expMS {
				for _, tl := range expTr {
					for _, lb := range []string{"EXPORTER-x", "", "label", longLabel(249)} {
						for _, cx := range expCtx {
							s := base
							s.Fn, s.Secret, s.Label = "exporter13", pat(ml, 90), lb
							if tl < 0 {
								s.NilTranscript = true
							} else {
								s.Chunks = []hexb{pat(tl, 91)}
							}
							if cx < 0 {
								s.SeedNil = true
							} else {
								s.Seed = pat(cx, 92)
							}
							add(s, outLens)
						}
					}
				}
			}
			for _, n := range []int{255 * hl, 255*hl + 1} {
				s := base
				s.Fn, s.Secret, s.Label, s.NilTranscript, s.SeedNil = "exporter13", pat(hl, 90), "EXPORTER-x", true, true
				add(s, []int{n})
			}
			s := base
			s.Fn, s.Secret, s.Label, s.NilTranscript, s.SeedNil = "exporter13", pat(hl, 90), longLabel(250), true, true
			add(s, []int{32})
		}

		// ---- run
		total := int64(0)
		perStage := map[string]int64{}
		for si, name := range stageOrder {
			end := len(items)
			if si+1 < len(stageOrder) {
				end = stageStart[stageOrder[si+1]]
			}
			for _, it := range items[stageStart[name]:end] {
				n := int64(1)
				if it.lens != nil {
					n = int64(len(it.lens))
				}
				perStage[name] += n
				total += n
			}
		}
		c.Set("cases_per_stage", perStage)
		c.Set("work_items", len(items))
		c.Set("cases_planned", total)
		c.Set("suite_table_entries", len(suites))
		c.Set("suite_table_duplicate_entries_reduced_grid", nDup)
		c.Set("tls13_suites", len(suites13))
		c.Set("key_block_triples_in_tables", len(triples))
		if thorough {
			c.Set("output_lengths", fmt.Sprintf("every length 0..%d on the full grids, 513..1100 on a reduced input set", maxOut))
		} else {
			c.Set("output_lengths", fmt.Sprintf("every length 0..%d", maxOut))
		}
		c.Rule("a case = one (function, version/suite, secret, label, seed/context/randoms/transcript chunking, output length) tuple, all distinct by construction, plus one state per connection of the two handshake probes (ems-handshake, std-handshake); " +
			"non-trivial = the RFC defines a non-empty output for it (length>0 / in-domain), counted on the oracle path")
		c.Assume("oracle = hand transcription of RFC 2246 §5, 5246 §5/§6.3/§7.4.9/§8.1, 5705 §4, 7627 §4, 8446 §4.4.4/§7 over crypto/hmac + hash packages, anchored by known answers at start-up",
			"TLS 1.2 PRF hash and TLS 1.3 (hash, key_length) per suite id are taken from the RFCs' suite definitions, not from zcrypto's tables",
			"input byte content is one (quick) / two (thorough) fixed non-repeating patterns per length; lengths, labels and chunkings are enumerated exhaustively over the stated sets",
			"outside the RFCs' domain (HKDF L > 255*HashLen, label > 249, context > 255 / > 65535) nothing is demanded",
			"PRF / RFC 5705 exporter, output lengths > 130 inside an every-length sweep: expected value = prefix of one oracle evaluation at the sweep's largest length (P_hash is a truncated stream by definition); lengths <= 130 and everything TLS 1.3 are direct oracle evaluations",
			"extended master secret: observed through handshakes against the Go standard library server (RSA key exchange, 5 version/suite combinations x offer/no offer x 2 ways of offering); crypto/tls's own master secret anchors the RFC 7627 oracle",
			"wiring of the schedule inside real handshakes (std-handshake:* outcomes): 30 cases = {zcrypto client + crypto/tls server, crypto/tls client + zcrypto server} x {TLS 1.3: each of the 3 suites on X25519, P-256, HelloRetryRequest X25519->P-256 with a SHA-256 and a SHA-384 suite, PSK resumption (2 connections) with a SHA-256 and a SHA-384 suite; TLS 1.2 ECDHE_RSA with P_SHA256 and P_SHA384 on X25519 and P-256; TLS 1.1 and 1.0 ECDHE_RSA}. Every NSS key-log line zcrypto wrote (CLIENT/SERVER_HANDSHAKE_TRAFFIC_SECRET, CLIENT/SERVER_TRAFFIC_SECRET_0, CLIENT_RANDOM; neither library writes EXPORTER_SECRET) and ExportKeyingMaterial for context nil / empty / 1 byte / 255 bytes x length 1, 32, 255 must equal both crypto/tls's value and the oracle's; the oracle is driven by the wire only: the ephemeral private key is found in the recorded output of the deterministic Config.Rand of either side, the encrypted flights are opened with a record layer written in this check under the oracle's own keys (transcripts, Finished verify_data sent by zcrypto, NewSessionTicket nonce, PSK binder of a resuming ClientHello are read from there)",
			"the handshake probes run over the in-memory duplex of internal/tlsx: no wall-clock waits; a handshake that does not complete yields Incomplete + comparison of the lines written so far, never a violation by itself (exception: a zcrypto server that rejects, as invalid, the PSK binder the oracle confirms)",
			"crypto/tls refuses the RFC 5705 exporter without extended master secret unless GODEBUG tlsunsafeekm=1: set through a //go:debug directive of this check")

		if os.Getenv("C26_ONLY_PROBES") != "" { // development aid only: never an exhaustive run
			items = nil
			c.Incomplete("development run (C26_ONLY_PROBES): the function-level grid was skipped")
		}
		col := &collector{viol: map[string]*vrec{}}
		for i, m := range col0 {
			col.add("suite table: (keyLen, macLen, ivLen) of a cipher suite differ from the suite's RFC definition", int64(i)-1000, m)
		}
		var mu sync.Mutex
		done := make([]bool, len(items))
		complete := c.Parallel(len(items), func(w, i int) {
			it := items[i]
			h := ev.Hist{}
			var impl, orc, cases, nontriv int64
			lens := it.lens
			if lens == nil {
				lens = []int{it.s.Length}
			}
			var st *stream
			if len(lens) > 1 && (it.s.Fn == "prf" || it.s.Fn == "ekm") {
				st = &stream{max: lens[len(lens)-1]}
			}
			for k, n := range lens {
				s := it.s
				s.Length = n
				r := eval(s, st)
				h[r.outcome]++
				cases++
				impl += int64(r.impl)
				orc += int64(r.oracle)
				if r.nontriv && r.sig == "" {
					nontriv++
				}
				if r.sig != "" {
					col.add(r.sig, int64(i)<<16|int64(k), mkWitness(s, r))
				}
			}
			c.Merge(h)
			c.States.Add(cases)
			c.Traces.Add(cases)
			c.Transitions.Add(impl)
			c.Evaluations.Add(orc)
			c.Distinct.Add(nontriv)
			mu.Lock()
			done[i] = true
			mu.Unlock()
		})
		if !complete {
			left := 0
			for _, d := range done {
				if !d {
					left++
				}
			}
			c.Incomplete(fmt.Sprintf("time budget hit: %d of %d work items not evaluated", left, len(items)))
		}

		// samples
		for _, i := range []int{stageStart["prf-grid"] + 7, stageStart["per-suite"] + 5, stageStart["tls13"] + 11} {
			if i < len(items) {
				s := items[i].s
				if items[i].lens != nil {
					s.Length = items[i].lens[len(items[i].lens)/2]
				}
				r := eval(s, nil)
				c.Sample(map[string]any{"spec": s, "outcome": r.outcome})
			}
		}

		// ---- extended master secret (RFC 7627): zcrypto has no function for it, so it
		// is observed where it must take effect: a handshake that negotiates it.
		runEMSProbe(c, col, false)

		// ---- the schedule as wired into real handshakes, against crypto/tls as the
		// peer and against the oracle driven by the wire bytes (std13.go)
		runStdProbe(c, col, false)

		// ---- report
		sigs := make([]string, 0, len(col.viol))
		for sig := range col.viol {
			sigs = append(sigs, sig)
		}
		sort.Slice(sigs, func(i, j int) bool { return col.viol[sigs[i]].order < col.viol[sigs[j]].order })
		for _, sig := range sigs {
			v := col.viol[sig]
			c.Violation(sig, v.w)
			for k := int64(1); k < v.count; k++ {
				c.Violation(sig, nil)
			}
		}
		reentrantPhase(c)
		pprof.StopCPUProfile()
	})
}
