#!/bin/bash
# Builds every check binary offline (normal and, where used, -race) so that a check only pays an incremental rebuild.
set -u
cd "$(dirname "$0")"
export GOFLAGS=-mod=mod GOPROXY=off
cp /repo/go.sum mc/go.sum
mkdir -p .bin evidence replays
(cd /repo && go build ./... ) || exit 1
cd mc
for d in cmd/*/; do
  id=$(basename "$d")
  if [ -x "$d/setup.sh" ]; then "$d/setup.sh" || exit 1; continue; fi
  go build -tags verif -o "../.bin/$id" "./cmd/$id" || exit 1
done
echo setup ok
