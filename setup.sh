#!/bin/bash
# Builds every check binary offline so that a check only pays an incremental rebuild of whatever changed in /repo.
set -u
cd "$(dirname "$0")"
export GOFLAGS=-mod=mod GOPROXY=off
mkdir -p .bin .work evidence replays
(cd /repo && go build ./... ) || exit 1
fail=0
# only the checks registered in MANIFEST.json (tools/checks.json is its source); directories of checks still being built are skipped
for id in $(jq -r '.checks[].id' tools/checks.json | sort); do
  ./check "$id" build || { echo "setup: build of $id failed"; fail=1; }
done
[ $fail = 0 ] && echo setup ok
exit $fail
