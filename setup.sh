#!/bin/bash
# Builds every check binary offline so that a check only pays an incremental rebuild of whatever changed in /repo.
set -u
cd "$(dirname "$0")"
export GOFLAGS=-mod=mod GOPROXY=off
mkdir -p .bin .work evidence replays
(cd /repo && go build ./... ) || exit 1
fail=0
for d in mc/cmd/c[0-9][0-9]/; do
  id=$(basename "$d" | tr 'a-z' 'A-Z')
  ./check "$id" build || { echo "setup: build of $id failed"; fail=1; }
done
[ $fail = 0 ] && echo setup ok
exit $fail
